package main

// Contract files: comment-only Go files (build tag verif) in the verified
// packages. Every line of interest starts with "//@".
//
//   //@ func (a *allocArea) rollback(st *txAllocArea)
//   //@   property C04 C07
//   //@   requires a != nil
//   //@   ensures  a.endMarker == old(st.endMarker)
//   //@   modifies a.endMarker, a.freelist
//   //@   loop 0 invariant i <= n
//   //@   loop 0 modifies a.x
//   //@ pure func name(p T) R { return expr }
//   //@ ghost field lock heldPending int
//   //@ extern func (m *sync.Mutex) Lock()        (assumed contract, outside module)
//   //@ interface func (l sync.Locker) Unlock()   (assumed interface contract)

import (
	"fmt"
	"go/ast"
	"go/parser"
	"go/token"
	"os"
	"path/filepath"
	"regexp"
	"strconv"
	"strings"
)

type Clause struct {
	Kind  string // requires, ensures, modifies, invariant, ...
	Text  string
	Expr  ast.Expr   // for requires/ensures/invariant
	Exprs []ast.Expr // for modifies
	Label string
	Line  int
	File  string
	Prop  []string // restrict this clause to properties (optional "[C01 C02]" prefix)
	Assumed bool   // "assumes": postcondition assumed at call sites, not checked against the body
}

type LoopSpec struct {
	Invariants []*Clause
	Modifies   []*Clause
	Steps      []*Clause // transition properties of one iteration (checked at the back edge only)
	Unroll     int       // >0: no invariant, the loop is unrolled (bounded check)
}

type FnParamSpec struct {
	Name     string
	Requires []*Clause
	Ensures  []*Clause
	Modifies []*Clause
}

type Contract struct {
	Kind     string // "func", "extern", "interface"
	Sig      *ast.FuncDecl
	SigText  string
	PkgPath  string // package of the contract file
	File     string
	Line     int
	Props    []string
	Requires []*Clause
	Ensures  []*Clause
	Modifies []*Clause
	Loops    map[int]*LoopSpec
	FnParams map[string]*FnParamSpec
	TimeoutS   int  // per-obligation solver timeout for this function (quick tier)
	AlsoInline bool // verified against its contract, but inlined at call sites (tiny helpers whose allocations must stay concrete)
	Inline   bool
	Trusted  string // non-empty: contract assumed (reason)
	Abstract string // non-empty: callers use contract, body not verified (reason)
	Unguarded bool // writes in this function are exempt from guarded-by (object not shared yet)
	NoSafety bool
	MayPanic bool // callee may panic (callers must not rely on return)... unused
	Replay   string
	Bounded  map[string]int
	Dispatch []string // interface: closed list of implementing types
	Notes    []string
	Unroll   int
	Witness  []*Clause // expressions (entry state) whose model values are handed to the replay scenario
	Fresh    []string  // named results that are freshly allocated objects
	Before   map[string][]*Clause // "before <callee>: <expr>": must hold at every call of <callee> (by short method/function name) in this function
	Rely     map[string][]*Clause // "rely <callee>: <expr>": assumed after every call of <callee> in this function (monitor invariant re-established by the other threads)
	Sets     []*Clause // ghost assignments performed at every return: "sets <ghost location> = <expr>" (Exprs: [lhs, rhs])
	Splits   []*Clause // case split: "split <expr>: v1, v2, ..." or "split <expr> pow2 lo hi"
	// filled at bind time
	ParamNames  []string
	ResultNames []string
	RecvName    string
}

type PureFunc struct {
	Decl    *ast.FuncDecl
	Body    ast.Expr
	PkgPath string
	Text    string
	Line    int
	File    string
}

type GhostDecl struct {
	TypeName string
	Field    string
	TypeExpr ast.Expr
	PkgPath  string
}

type Lemma struct {
	Name    string
	Props   []string
	File    string // smt2 file relative to /verif/lemmas (empty: inline lemma)
	PkgPath string
	Expect  string
	Ensures []*Clause // inline lemma: closed boolean spec expressions
	SrcFile string
	Line    int
}

// Guard: every store to field Field of struct Type must satisfy Cond (self = pointer to the struct).
type Guard struct {
	TypeName string
	Field    string
	Cond     *Clause
	PkgPath  string
	Props    []string
}

type Uninterp struct {
	Decl    *ast.FuncDecl
	PkgPath string
}

type ContractSet struct {
	Contracts []*Contract
	Pures     map[string]*PureFunc // key pkgpath + "." + name
	Ghosts    []*GhostDecl
	Lemmas    []*Lemma
	Uninterp  map[string]*Uninterp // key pkgpath + "." + name
	Exempt    []*GhostDecl         // frame-exempt struct types (TypeName, PkgPath)
	Overlays  [][3]string          // pkgpath, array type, struct type
	GhostVars []*GhostDecl         // ghost globals (Field = name)
	Guards    []*Guard
	FieldAssumes []*Guard // assumed range of a field whenever it is read (documented modelling bound)
	Errors    []string
}

// currentTier is set from the command line before the contract files are read.
var currentTier = "quick"

var clauseKeywords = map[string]bool{
	"property": true, "requires": true, "ensures": true, "modifies": true, "loop": true,
	"inline": true, "trusted": true, "abstract": true, "nosafety": true, "replay": true,
	"bounded": true, "note": true, "fnparam": true, "dispatch": true, "unroll": true, "assumes": true, "split": true, "fresh": true, "witness": true, "unguarded": true, "alsoinline": true, "timeout": true, "sets": true, "before": true, "rely": true, "entry-invariant": true,
}

var propPrefix = regexp.MustCompile(`^\[((?:C\d+\s*)+)\]\s*`)

func parseContractFile(path, pkgPath string, cs *ContractSet) {
	data, err := os.ReadFile(path)
	if err != nil {
		cs.Errors = append(cs.Errors, err.Error())
		return
	}
	lines := strings.Split(string(data), "\n")
	type raw struct {
		text string
		line int
	}
	var blocks [][]raw
	var cur []raw
	flush := func() {
		if len(cur) > 0 {
			blocks = append(blocks, cur)
			cur = nil
		}
	}
	for i, ln := range lines {
		t := strings.TrimSpace(ln)
		if !strings.HasPrefix(t, "//@") {
			flush()
			continue
		}
		body := strings.TrimPrefix(t, "//@")
		if strings.TrimSpace(body) == "" {
			continue
		}
		// strip trailing spec comment
		if idx := strings.Index(body, " // "); idx >= 0 {
			body = body[:idx]
		}
		trim := strings.TrimSpace(body)
		isTop := strings.HasPrefix(trim, "func ") || strings.HasPrefix(trim, "pure ") || strings.HasPrefix(trim, "ghost ") ||
			strings.HasPrefix(trim, "frame-exempt ") || strings.HasPrefix(trim, "guard ") || strings.HasPrefix(trim, "assume-field ") || strings.HasPrefix(trim, "overlay ") || strings.HasPrefix(trim, "extern ") || strings.HasPrefix(trim, "interface ") || strings.HasPrefix(trim, "lemma ") || strings.HasPrefix(trim, "uninterp ")
		if isTop {
			flush()
		}
		cur = append(cur, raw{trim, i + 1})
	}
	flush()

	base := filepath.Base(path)
	for _, blk := range blocks {
		head := blk[0]
		switch {
		case strings.HasPrefix(head.text, "pure "):
			var sb strings.Builder
			for _, r := range blk {
				sb.WriteString(r.text)
				sb.WriteByte('\n')
			}
			src := strings.TrimPrefix(sb.String(), "pure ")
			fd, err := parseFuncDecl(src)
			if err != nil {
				cs.Errors = append(cs.Errors, fmt.Sprintf("%s:%d: pure func: %v", base, head.line, err))
				continue
			}
			if fd.Body == nil || len(fd.Body.List) != 1 {
				cs.Errors = append(cs.Errors, fmt.Sprintf("%s:%d: pure func needs a single return", base, head.line))
				continue
			}
			ret, ok := fd.Body.List[0].(*ast.ReturnStmt)
			if !ok || len(ret.Results) != 1 {
				cs.Errors = append(cs.Errors, fmt.Sprintf("%s:%d: pure func needs a single return expr", base, head.line))
				continue
			}
			cs.Pures[pkgPath+"."+fd.Name.Name] = &PureFunc{Decl: fd, Body: ret.Results[0], PkgPath: pkgPath, Text: src, Line: head.line, File: base}
		case strings.HasPrefix(head.text, "ghost var "):
			f := strings.Fields(strings.TrimPrefix(head.text, "ghost var "))
			if len(f) < 2 {
				cs.Errors = append(cs.Errors, fmt.Sprintf("%s:%d: ghost var name type", base, head.line))
				continue
			}
			te, err := parser.ParseExpr(strings.Join(f[1:], " "))
			if err != nil {
				cs.Errors = append(cs.Errors, fmt.Sprintf("%s:%d: ghost var type: %v", base, head.line, err))
				continue
			}
			cs.GhostVars = append(cs.GhostVars, &GhostDecl{Field: f[0], TypeExpr: te, PkgPath: pkgPath})
		case strings.HasPrefix(head.text, "ghost field "):
			f := strings.Fields(strings.TrimPrefix(head.text, "ghost field "))
			if len(f) < 3 {
				cs.Errors = append(cs.Errors, fmt.Sprintf("%s:%d: ghost field T name type", base, head.line))
				continue
			}
			te, err := parser.ParseExpr(strings.Join(f[2:], " "))
			if err != nil {
				cs.Errors = append(cs.Errors, fmt.Sprintf("%s:%d: ghost field type: %v", base, head.line, err))
				continue
			}
			cs.Ghosts = append(cs.Ghosts, &GhostDecl{TypeName: f[0], Field: f[1], TypeExpr: te, PkgPath: pkgPath})
		case strings.HasPrefix(head.text, "guard "), strings.HasPrefix(head.text, "assume-field "):
			isAssume := strings.HasPrefix(head.text, "assume-field ")
			var sb strings.Builder
			for _, r := range blk {
				sb.WriteString(r.text)
				sb.WriteByte(' ')
			}
			txt := strings.TrimSpace(strings.TrimPrefix(strings.TrimPrefix(sb.String(), "guard "), "assume-field "))
			var props []string
			if m := propPrefix.FindStringSubmatch(txt); m != nil {
				props = strings.Fields(m[1])
				txt = txt[len(m[0]):]
			}
			ci := strings.Index(txt, ":")
			f := strings.Fields(txt[:max(ci, 0)])
			if ci < 0 || len(f) != 2 {
				cs.Errors = append(cs.Errors, fmt.Sprintf("%s:%d: guard [Cxx] Type field: cond", base, head.line))
				continue
			}
			ctext := strings.TrimSpace(txt[ci+1:])
			ex, err := parser.ParseExpr(ctext)
			if err != nil {
				cs.Errors = append(cs.Errors, fmt.Sprintf("%s:%d: guard: %v", base, head.line, err))
				continue
			}
			gd := &Guard{TypeName: f[0], Field: f[1], PkgPath: pkgPath, Props: props,
				Cond: &Clause{Kind: "guard", Text: ctext, Expr: ex, Line: head.line, File: base}}
			if isAssume {
				cs.FieldAssumes = append(cs.FieldAssumes, gd)
			} else {
				cs.Guards = append(cs.Guards, gd)
			}
		case strings.HasPrefix(head.text, "overlay "):
			f := strings.Fields(strings.TrimPrefix(head.text, "overlay "))
			if len(f) == 2 {
				cs.Overlays = append(cs.Overlays, [3]string{pkgPath, f[0], f[1]})
			} else {
				cs.Errors = append(cs.Errors, fmt.Sprintf("%s:%d: overlay <arrayType> <structType>", base, head.line))
			}
		case strings.HasPrefix(head.text, "frame-exempt "):
			for _, tn := range strings.Fields(strings.TrimPrefix(head.text, "frame-exempt ")) {
				cs.Exempt = append(cs.Exempt, &GhostDecl{TypeName: tn, PkgPath: pkgPath})
			}
		case strings.HasPrefix(head.text, "uninterp "):
			fd, err := parseFuncDecl(strings.TrimPrefix(head.text, "uninterp ") + " {}")
			if err != nil {
				cs.Errors = append(cs.Errors, fmt.Sprintf("%s:%d: uninterp: %v", base, head.line, err))
				continue
			}
			cs.Uninterp[pkgPath+"."+fd.Name.Name] = &Uninterp{Decl: fd, PkgPath: pkgPath}
		case strings.HasPrefix(head.text, "lemma "):
			f := strings.Fields(strings.TrimPrefix(head.text, "lemma "))
			lm := &Lemma{PkgPath: pkgPath, Expect: "unsat", SrcFile: base, Line: head.line}
			if len(f) >= 1 {
				lm.Name = f[0]
			}
			if len(f) >= 2 {
				lm.File = f[1]
			}
			var lines []raw
			for _, r := range blk[1:] {
				first := strings.Fields(r.text)[0]
				if first == "property" || first == "ensures" || len(lines) == 0 {
					lines = append(lines, r)
				} else {
					lines[len(lines)-1].text += " " + r.text
				}
			}
			for _, r := range lines {
				ff := strings.Fields(r.text)
				switch ff[0] {
				case "property":
					lm.Props = append(lm.Props, ff[1:]...)
				case "ensures":
					txt := strings.TrimSpace(strings.TrimPrefix(r.text, "ensures"))
					cl := &Clause{Kind: "ensures", Line: r.line, File: base}
					if m := regexp.MustCompile(`^([A-Za-z_][A-Za-z0-9_\-]*):\s+`).FindStringSubmatch(txt); m != nil {
						cl.Label = m[1]
						txt = txt[len(m[0]):]
					}
					cl.Text = txt
					ex, err := parser.ParseExpr(txt)
					if err != nil {
						cs.Errors = append(cs.Errors, fmt.Sprintf("%s:%d: lemma ensures: %v", base, r.line, err))
						continue
					}
					cl.Expr = ex
					lm.Ensures = append(lm.Ensures, cl)
				}
			}
			cs.Lemmas = append(cs.Lemmas, lm)
		default:
			kind := "func"
			sigText := head.text
			if strings.HasPrefix(sigText, "extern ") {
				kind = "extern"
				sigText = strings.TrimPrefix(sigText, "extern ")
			} else if strings.HasPrefix(sigText, "interface ") {
				kind = "interface"
				sigText = strings.TrimPrefix(sigText, "interface ")
			}
			fd, err := parseFuncDecl(sigText + " {}")
			if err != nil {
				cs.Errors = append(cs.Errors, fmt.Sprintf("%s:%d: signature: %v", base, head.line, err))
				continue
			}
			c := &Contract{Kind: kind, Sig: fd, SigText: sigText, PkgPath: pkgPath, File: base, Line: head.line,
				Loops: map[int]*LoopSpec{}, FnParams: map[string]*FnParamSpec{}, Bounded: map[string]int{}}
			// join continuation lines
			var clauses []raw
			for _, r := range blk[1:] {
				first := strings.Fields(r.text)[0]
				if clauseKeywords[first] || len(clauses) == 0 {
					clauses = append(clauses, r)
				} else {
					clauses[len(clauses)-1].text += " " + r.text
				}
			}
			for _, r := range clauses {
				if err := c.addClause(r.text, r.line, base); err != nil {
					cs.Errors = append(cs.Errors, fmt.Sprintf("%s:%d: %v", base, r.line, err))
				}
			}
			cs.Contracts = append(cs.Contracts, c)
		}
	}
}

func parseFuncDecl(src string) (*ast.FuncDecl, error) {
	fset := token.NewFileSet()
	f, err := parser.ParseFile(fset, "spec.go", "package p\n"+src, 0)
	if err != nil {
		return nil, err
	}
	for _, d := range f.Decls {
		if fd, ok := d.(*ast.FuncDecl); ok {
			return fd, nil
		}
	}
	return nil, fmt.Errorf("no func decl")
}

func (c *Contract) addClause(text string, line int, file string) error {
	fields := strings.Fields(text)
	kw := fields[0]
	rest := strings.TrimSpace(strings.TrimPrefix(text, kw))
	mk := func(kind, txt string) (*Clause, error) {
		cl := &Clause{Kind: kind, Line: line, File: file}
		if m := propPrefix.FindStringSubmatch(txt); m != nil {
			cl.Prop = strings.Fields(m[1])
			txt = txt[len(m[0]):]
		}
		// optional label  "name: expr"  where name is an identifier followed by ':' (not ':=')
		if m := regexp.MustCompile(`^([A-Za-z_][A-Za-z0-9_\-]*):\s+`).FindStringSubmatch(txt); m != nil {
			cl.Label = m[1]
			txt = txt[len(m[0]):]
		}
		cl.Text = txt
		if kind == "modifies" {
			es, err := parseExprList(txt)
			if err != nil {
				return nil, fmt.Errorf("modifies %q: %v", txt, err)
			}
			cl.Exprs = es
		} else {
			e, err := parser.ParseExpr(txt)
			if err != nil {
				return nil, fmt.Errorf("%s %q: %v", kind, txt, err)
			}
			cl.Expr = e
		}
		return cl, nil
	}
	switch kw {
	case "property":
		c.Props = append(c.Props, fields[1:]...)
	case "requires":
		cl, err := mk("requires", rest)
		if err != nil {
			return err
		}
		c.Requires = append(c.Requires, cl)
	case "entry-invariant":
		// a precondition that holds between operations by an invariant over histories (protocol state of the
		// file): assumed at entry, NOT demanded from callers; listed as an assumption of every run that uses it
		cl, err := mk("requires", rest)
		if err != nil {
			return err
		}
		cl.Assumed = true
		c.Requires = append(c.Requires, cl)
	case "ensures":
		cl, err := mk("ensures", rest)
		if err != nil {
			return err
		}
		c.Ensures = append(c.Ensures, cl)
	case "assumes":
		cl, err := mk("ensures", rest)
		if err != nil {
			return err
		}
		cl.Assumed = true
		c.Ensures = append(c.Ensures, cl)
	case "modifies":
		if rest == "" || rest == "nothing" {
			return nil
		}
		cl, err := mk("modifies", rest)
		if err != nil {
			return err
		}
		c.Modifies = append(c.Modifies, cl)
	case "loop":
		if len(fields) < 3 {
			return fmt.Errorf("loop N invariant|modifies ...")
		}
		n, err := strconv.Atoi(fields[1])
		if err != nil {
			return err
		}
		ls := c.Loops[n]
		if ls == nil {
			ls = &LoopSpec{}
			c.Loops[n] = ls
		}
		sub := fields[2]
		rest2 := strings.TrimSpace(strings.TrimPrefix(strings.TrimSpace(strings.TrimPrefix(rest, fields[1])), sub))
		switch sub {
		case "invariant":
			cl, err := mk("invariant", rest2)
			if err != nil {
				return err
			}
			ls.Invariants = append(ls.Invariants, cl)
		case "assumes":
			// a fact about data the loop reads from outside the verified state (disk contents): assumed at the head of
			// every iteration, never proved; listed as an assumption
			cl, err := mk("invariant", rest2)
			if err != nil {
				return err
			}
			cl.Assumed = true
			ls.Invariants = append(ls.Invariants, cl)
		case "modifies":
			if rest2 == "" || rest2 == "nothing" {
				return nil
			}
			cl, err := mk("modifies", rest2)
			if err != nil {
				return err
			}
			ls.Modifies = append(ls.Modifies, cl)
		case "unroll":
			// loop N unroll K [Kthorough]: bound of the quick tier and, optionally, of the thorough tier
			ff := strings.Fields(rest2)
			if len(ff) == 0 {
				return fmt.Errorf("loop N unroll K [Kthorough]")
			}
			n, err := strconv.Atoi(ff[0])
			if err != nil {
				return err
			}
			ls.Unroll = n
			if len(ff) > 1 && currentTier == "thorough" {
				if m, err := strconv.Atoi(ff[1]); err == nil {
					ls.Unroll = m
				}
			}
		case "step":
			cl, err := mk("step", rest2)
			if err != nil {
				return err
			}
			ls.Steps = append(ls.Steps, cl)
		default:
			return fmt.Errorf("unknown loop clause %q", sub)
		}
	case "fnparam":
		// fnparam name requires|ensures|modifies ...
		if len(fields) < 3 {
			return fmt.Errorf("fnparam name kind ...")
		}
		name, sub := fields[1], fields[2]
		fp := c.FnParams[name]
		if fp == nil {
			fp = &FnParamSpec{Name: name}
			c.FnParams[name] = fp
		}
		rest2 := strings.TrimSpace(strings.TrimPrefix(strings.TrimSpace(strings.TrimPrefix(rest, name)), sub))
		switch sub {
		case "requires", "ensures":
			cl, err := mk(sub, rest2)
			if err != nil {
				return err
			}
			if sub == "requires" {
				fp.Requires = append(fp.Requires, cl)
			} else {
				fp.Ensures = append(fp.Ensures, cl)
			}
		case "modifies":
			if rest2 != "" && rest2 != "nothing" {
				cl, err := mk("modifies", rest2)
				if err != nil {
					return err
				}
				fp.Modifies = append(fp.Modifies, cl)
			}
		default:
			return fmt.Errorf("unknown fnparam clause %q", sub)
		}
	case "inline":
		c.Inline = true
	case "alsoinline":
		c.AlsoInline = true
	case "timeout":
		n, err := strconv.Atoi(rest)
		if err != nil {
			return err
		}
		c.TimeoutS = n
	case "trusted":
		c.Trusted = rest
		if rest == "" {
			c.Trusted = "assumed"
		}
	case "abstract":
		c.Abstract = rest
		if rest == "" {
			c.Abstract = "body not verified"
		}
	case "nosafety":
		c.NoSafety = true
	case "unguarded":
		c.Unguarded = true
		c.Notes = append(c.Notes, "unguarded: "+rest)
	case "replay":
		c.Replay = rest
	case "bounded":
		if len(fields) >= 3 {
			n, err := strconv.Atoi(fields[2])
			if err != nil {
				return err
			}
			c.Bounded[fields[1]] = n
		}
	case "unroll":
		n, err := strconv.Atoi(rest)
		if err != nil {
			return err
		}
		c.Unroll = n
	case "split":
		// split <expr> pow2 <lo> <hi>
		idx := strings.Index(rest, " pow2 ")
		if idx < 0 {
			return fmt.Errorf("split <expr> pow2 <lo> <hi>")
		}
		ex, err := parser.ParseExpr(strings.TrimSpace(rest[:idx]))
		if err != nil {
			return err
		}
		c.Splits = append(c.Splits, &Clause{Kind: "split", Text: rest, Expr: ex, Label: strings.TrimSpace(rest[idx+6:]), Line: line, File: file})
	case "witness":
		es, err := parseExprList(rest)
		if err != nil {
			return err
		}
		for _, ex := range es {
			c.Witness = append(c.Witness, &Clause{Kind: "witness", Text: exprString(ex), Expr: ex, Line: line, File: file})
		}
	case "before":
		// before <callee>: [label:] <expr>
		i := strings.Index(rest, ":")
		if i < 0 {
			return fmt.Errorf("before <callee>: <expr>")
		}
		callee := strings.TrimSpace(rest[:i])
		cl, err := mk("before", strings.TrimSpace(rest[i+1:]))
		if err != nil {
			return err
		}
		if c.Before == nil {
			c.Before = map[string][]*Clause{}
		}
		c.Before[callee] = append(c.Before[callee], cl)
	case "rely":
		i := strings.Index(rest, ":")
		if i < 0 {
			return fmt.Errorf("rely <callee>: <expr>")
		}
		callee := strings.TrimSpace(rest[:i])
		cl, err := mk("rely", strings.TrimSpace(rest[i+1:]))
		if err != nil {
			return err
		}
		if c.Rely == nil {
			c.Rely = map[string][]*Clause{}
		}
		c.Rely[callee] = append(c.Rely[callee], cl)
	case "sets":
		i := strings.Index(rest, " = ")
		if i < 0 {
			return fmt.Errorf("sets <ghost location> = <expr>")
		}
		lhs, err := parser.ParseExpr(strings.TrimSpace(rest[:i]))
		if err != nil {
			return err
		}
		rhs, err := parser.ParseExpr(strings.TrimSpace(rest[i+3:]))
		if err != nil {
			return err
		}
		c.Sets = append(c.Sets, &Clause{Kind: "sets", Text: rest, Exprs: []ast.Expr{lhs, rhs}, Line: line, File: file})
	case "fresh":
		c.Fresh = append(c.Fresh, fields[1:]...)
	case "dispatch":
		c.Dispatch = append(c.Dispatch, fields[1:]...)
	case "note":
		c.Notes = append(c.Notes, rest)
	default:
		return fmt.Errorf("unknown clause %q", kw)
	}
	return nil
}

func parseExprList(txt string) ([]ast.Expr, error) {
	// parse "a, b.c, elems(x)" by wrapping in a call
	e, err := parser.ParseExpr("f(" + txt + ")")
	if err != nil {
		return nil, err
	}
	return e.(*ast.CallExpr).Args, nil
}

// funcKey renders the identity of the contract's target: "pkg.(*T).m" or "pkg.f".
func (c *Contract) targetName() (recvType string, ptr bool, recvPkg string, name string) {
	name = c.Sig.Name.Name
	if c.Sig.Recv != nil && len(c.Sig.Recv.List) == 1 {
		t := c.Sig.Recv.List[0].Type
		if st, ok := t.(*ast.StarExpr); ok {
			ptr = true
			t = st.X
		}
		switch x := t.(type) {
		case *ast.Ident:
			recvType = x.Name
		case *ast.SelectorExpr:
			if id, ok := x.X.(*ast.Ident); ok {
				recvPkg = id.Name
			}
			recvType = x.Sel.Name
		}
	}
	return
}

func exprString(e ast.Expr) string {
	var sb strings.Builder
	writeExpr(&sb, e)
	return sb.String()
}

func writeExpr(sb *strings.Builder, e ast.Expr) {
	switch x := e.(type) {
	case *ast.Ident:
		sb.WriteString(x.Name)
	case *ast.BasicLit:
		sb.WriteString(x.Value)
	case *ast.SelectorExpr:
		writeExpr(sb, x.X)
		sb.WriteByte('.')
		sb.WriteString(x.Sel.Name)
	case *ast.StarExpr:
		sb.WriteByte('*')
		writeExpr(sb, x.X)
	case *ast.ParenExpr:
		sb.WriteByte('(')
		writeExpr(sb, x.X)
		sb.WriteByte(')')
	case *ast.UnaryExpr:
		sb.WriteString(x.Op.String())
		writeExpr(sb, x.X)
	case *ast.BinaryExpr:
		writeExpr(sb, x.X)
		sb.WriteByte(' ')
		sb.WriteString(x.Op.String())
		sb.WriteByte(' ')
		writeExpr(sb, x.Y)
	case *ast.CallExpr:
		writeExpr(sb, x.Fun)
		sb.WriteByte('(')
		for i, a := range x.Args {
			if i > 0 {
				sb.WriteString(", ")
			}
			writeExpr(sb, a)
		}
		sb.WriteByte(')')
	case *ast.IndexExpr:
		writeExpr(sb, x.X)
		sb.WriteByte('[')
		writeExpr(sb, x.Index)
		sb.WriteByte(']')
	case *ast.TypeAssertExpr:
		writeExpr(sb, x.X)
		sb.WriteString(".(")
		writeExpr(sb, x.Type)
		sb.WriteByte(')')
	case *ast.SliceExpr:
		writeExpr(sb, x.X)
		sb.WriteString("[..]")
	case *ast.ArrayType:
		sb.WriteString("[]")
		writeExpr(sb, x.Elt)
	case *ast.CompositeLit:
		writeExpr(sb, x.Type)
		sb.WriteByte('{')
		for i, el := range x.Elts {
			if i > 0 {
				sb.WriteString(", ")
			}
			writeExpr(sb, el)
		}
		sb.WriteByte('}')
	case *ast.KeyValueExpr:
		writeExpr(sb, x.Key)
		sb.WriteString(": ")
		writeExpr(sb, x.Value)
	default:
		fmt.Fprintf(sb, "<%T>", e)
	}
}
