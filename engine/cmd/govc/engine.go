package main

import (
	"fmt"
	"go/ast"
	"go/types"
	"os"
	"path/filepath"
	"sort"
	"strings"
	"sync"

	"golang.org/x/tools/go/packages"
	"golang.org/x/tools/go/ssa"
	"golang.org/x/tools/go/ssa/ssautil"
)

const modulePath = "github.com/elastic/go-txfile"

type Engine struct {
	repo      string
	prog      *ssa.Program
	pkgs      []*packages.Package
	spkgs     map[string]*ssa.Package
	tpkgs     map[string]*types.Package
	cs        *ContractSet
	byFn      map[*ssa.Function]*BoundContract
	ifaceCs   map[string]*BoundContract // "pkg.Type.Method"
	bound     []*BoundContract
	bindErrs  []string
	globals   map[*types.Var]*ssa.Global
	wrappers  map[*ssa.Function]*ssa.Function
	loadErrs  []string
	gvOnce    sync.Once
	gvars     map[string]*ghostVarInfo
}

type BoundContract struct {
	C   *Contract
	Fn  *ssa.Function // nil for interface contracts
	Sig *types.Signature
	eng *Engine
	methodObj *types.Func
}

func (bc *BoundContract) Name() string {
	if bc.Fn != nil {
		return bc.Fn.String()
	}
	return bc.C.SigText
}

func (bc *BoundContract) Short() string {
	n := bc.Name()
	n = strings.TrimPrefix(n, modulePath+"/")
	n = strings.TrimPrefix(n, modulePath+".")
	n = strings.ReplaceAll(n, modulePath+"/", "")
	n = strings.ReplaceAll(n, modulePath+".", "")
	if bc.Fn == nil {
		// interface: "func (l sync.Locker) Unlock()" -> sync.Locker.Unlock
		rt, _, rp, nm := bc.C.targetName()
		if rp != "" {
			return rp + "." + rt + "." + nm
		}
		return rt + "." + nm
	}
	return n
}

// bindParams maps the contract's parameter names (positional) to argument values.
func (bc *BoundContract) bindParams(args []Val) map[string]Val {
	vars := map[string]Val{}
	i := 0
	sig := bc.C.Sig
	if sig.Recv != nil {
		for _, f := range sig.Recv.List {
			for _, nm := range f.Names {
				if i < len(args) {
					vars[nm.Name] = args[i]
				}
			}
			i++
		}
	}
	if sig.Type.Params != nil {
		for _, f := range sig.Type.Params.List {
			if len(f.Names) == 0 {
				i++
				continue
			}
			for _, nm := range f.Names {
				if i < len(args) {
					vars[nm.Name] = args[i]
				}
				i++
			}
		}
	}
	return vars
}

func (bc *BoundContract) bindResults(vars map[string]Val, res []Val) {
	sig := bc.C.Sig
	i := 0
	if sig.Type.Results != nil {
		for _, f := range sig.Type.Results.List {
			if len(f.Names) == 0 {
				i++
				continue
			}
			for _, nm := range f.Names {
				if i < len(res) {
					vars[nm.Name] = res[i]
				}
				i++
			}
		}
	}
	for j, r := range res {
		vars[fmt.Sprintf("result%d", j)] = r
	}
	if len(res) == 1 {
		vars["result"] = res[0]
	}
}

func loadEngine(repo string) (*Engine, error) {
	env := append(os.Environ(), "GOFLAGS=-mod=mod", "GOPROXY=off", "GOSUMDB=off", "GOTOOLCHAIN=local")
	cfg := &packages.Config{Mode: packages.LoadAllSyntax, Dir: repo, BuildFlags: []string{"-tags=verif"}, Env: env}
	pkgs, err := packages.Load(cfg, ".", "./pq", "./internal/vfs/osfs")
	if err != nil {
		return nil, err
	}
	e := &Engine{repo: repo, pkgs: pkgs, spkgs: map[string]*ssa.Package{}, tpkgs: map[string]*types.Package{},
		byFn: map[*ssa.Function]*BoundContract{}, ifaceCs: map[string]*BoundContract{}, globals: map[*types.Var]*ssa.Global{},
		wrappers: map[*ssa.Function]*ssa.Function{}}
	for _, p := range pkgs {
		for _, er := range p.Errors {
			e.loadErrs = append(e.loadErrs, er.Error())
		}
	}
	if len(e.loadErrs) > 0 {
		return e, fmt.Errorf("package load errors: %s", strings.Join(e.loadErrs, "; "))
	}
	prog, _ := ssautil.AllPackages(pkgs, ssa.GlobalDebug)
	prog.Build()
	e.prog = prog
	for _, sp := range prog.AllPackages() {
		e.spkgs[sp.Pkg.Path()] = sp
		e.tpkgs[sp.Pkg.Path()] = sp.Pkg
		for _, m := range sp.Members {
			if g, ok := m.(*ssa.Global); ok {
				if v, ok := g.Object().(*types.Var); ok {
					e.globals[v] = g
				}
			}
		}
	}
	// contract files
	e.cs = &ContractSet{Pures: map[string]*PureFunc{}, Uninterp: map[string]*Uninterp{}}
	for _, p := range pkgs {
		if !strings.HasPrefix(p.PkgPath, modulePath) {
			continue
		}
		dir := ""
		if len(p.GoFiles) > 0 {
			dir = filepath.Dir(p.GoFiles[0])
		}
		matches, _ := filepath.Glob(filepath.Join(dir, "*_verif.go"))
		sort.Strings(matches)
		for _, m := range matches {
			parseContractFile(m, p.PkgPath, e.cs)
		}
	}
	for _, ov := range e.cs.Overlays {
		pkg := e.tpkgs[ov[0]]
		a, ok1 := pkg.Scope().Lookup(ov[1]).(*types.TypeName)
		s, ok2 := pkg.Scope().Lookup(ov[2]).(*types.TypeName)
		if !ok1 || !ok2 {
			e.bindErrs = append(e.bindErrs, fmt.Sprintf("overlay %s %s: unknown type", ov[1], ov[2]))
			continue
		}
		_ = a
		overlayTypes[ov[0]+"."+ov[1]] = s.Type()
	}
	e.bindAll()
	return e, nil
}

func (e *Engine) typesPackage(path string) *types.Package { return e.tpkgs[path] }

// findPackage resolves a package name used in a contract of package `from`.
func (e *Engine) findPackage(from *types.Package, name string) *types.Package {
	if from != nil {
		for _, imp := range from.Imports() {
			if imp.Name() == name {
				return imp
			}
		}
	}
	// fall back: any loaded package with that name (prefer std / shortest path)
	var best *types.Package
	for _, p := range e.tpkgs {
		if p.Name() == name {
			if best == nil || len(p.Path()) < len(best.Path()) {
				best = p
			}
		}
	}
	return best
}

func (e *Engine) globalFor(v *types.Var) *ssa.Global { return e.globals[v] }

func (e *Engine) lookupPure(pkg *types.Package, name string) *PureFunc {
	if pkg != nil {
		if pf, ok := e.cs.Pures[pkg.Path()+"."+name]; ok {
			return pf
		}
	}
	// pkgname.func
	if i := strings.Index(name, "."); i > 0 {
		if p := e.findPackage(pkg, name[:i]); p != nil {
			if pf, ok := e.cs.Pures[p.Path()+"."+name[i+1:]]; ok {
				return pf
			}
		}
	}
	// shared pures of the root package are visible everywhere
	if pf, ok := e.cs.Pures[modulePath+"."+name]; ok {
		return pf
	}
	return nil
}

func (e *Engine) lookupUninterp(pkg *types.Package, name string) *Uninterp {
	if pkg != nil {
		if u, ok := e.cs.Uninterp[pkg.Path()+"."+name]; ok {
			return u
		}
	}
	if u, ok := e.cs.Uninterp[modulePath+"."+name]; ok {
		return u
	}
	return nil
}

type ghostVarInfo struct {
	id  int
	typ types.Type
}

func (e *Engine) ghostVar(name string) *ghostVarInfo {
	e.gvOnce.Do(func() {
		e.gvars = map[string]*ghostVarInfo{}
		for i, g := range e.cs.GhostVars {
			pkg := e.tpkgs[g.PkgPath]
			env := &SpecEnv{cx: &Ctx{eng: e}, pkg: pkg}
			t := env.lookupType(g.TypeExpr)
			if t == nil {
				e.bindErrs = append(e.bindErrs, "ghost var "+g.Field+": unknown type")
				continue
			}
			e.gvars[g.Field] = &ghostVarInfo{id: i + 1, typ: t}
		}
	})
	return e.gvars[name]
}

func (e *Engine) contractFor(fn *ssa.Function) *BoundContract { return e.byFn[fn] }

func (e *Engine) methodOfWrapper(fn *ssa.Function) *ssa.Function {
	if m, ok := e.wrappers[fn]; ok {
		return m
	}
	// "$bound" wrapper: the object is the method
	if obj, ok := fn.Object().(*types.Func); ok && obj != nil {
		m := e.prog.FuncValue(obj)
		e.wrappers[fn] = m
		return m
	}
	// find by scanning the wrapper body for the single call
	for _, b := range fn.Blocks {
		for _, ins := range b.Instrs {
			if c, ok := ins.(*ssa.Call); ok {
				if callee := c.Common().StaticCallee(); callee != nil {
					e.wrappers[fn] = callee
					return callee
				}
			}
		}
	}
	return nil
}

func (e *Engine) methodFunc(t types.Type, m *types.Func) *ssa.Function {
	sel := e.prog.MethodSets.MethodSet(t).Lookup(m.Pkg(), m.Name())
	if sel == nil {
		return nil
	}
	return e.prog.MethodValue(sel)
}

func (e *Engine) interfaceContract(t types.Type, m *types.Func) *BoundContract {
	n, ok := t.(*types.Named)
	if !ok {
		if a, ok2 := t.(*types.Alias); ok2 {
			n, ok = types.Unalias(a).(*types.Named)
		}
	}
	if ok && n.Obj().Pkg() != nil {
		key := n.Obj().Pkg().Path() + "." + n.Obj().Name() + "." + m.Name()
		if bc := e.ifaceCs[key]; bc != nil {
			return bc
		}
	}
	// search embedded interfaces by method origin: any interface contract whose
	// interface type has this very method object
	for _, bc := range e.ifaceCs {
		if bc.methodObj == m {
			return bc
		}
	}
	return nil
}

func (bc *BoundContract) setMethodObj(m *types.Func) { bc.methodObj = m }

func (e *Engine) bindAll() {
	for _, c := range e.cs.Contracts {
		bc, err := e.bind(c)
		if err != nil {
			e.bindErrs = append(e.bindErrs, fmt.Sprintf("%s:%d: %s: %v", c.File, c.Line, c.SigText, err))
			continue
		}
		e.bound = append(e.bound, bc)
	}
}

func (e *Engine) resolveRecvType(c *Contract) (types.Type, error) {
	rt, ptr, rp, _ := c.targetName()
	pkg := e.tpkgs[c.PkgPath]
	if rp != "" {
		pkg = e.findPackage(pkg, rp)
		if pkg == nil {
			return nil, fmt.Errorf("unknown package %s", rp)
		}
	}
	obj := pkg.Scope().Lookup(rt)
	tn, ok := obj.(*types.TypeName)
	if !ok {
		return nil, fmt.Errorf("unknown type %s", rt)
	}
	var t types.Type = tn.Type()
	if ptr {
		t = types.NewPointer(t)
	}
	return t, nil
}

func (e *Engine) bind(c *Contract) (*BoundContract, error) {
	bc := &BoundContract{C: c, eng: e}
	rt, _, _, name := c.targetName()
	pkg := e.tpkgs[c.PkgPath]
	if pkg == nil {
		return nil, fmt.Errorf("unknown package %s", c.PkgPath)
	}
	if c.Kind == "interface" {
		t, err := e.resolveRecvType(c)
		if err != nil {
			return nil, err
		}
		it, ok := t.Underlying().(*types.Interface)
		if !ok {
			return nil, fmt.Errorf("%s is not an interface", t)
		}
		var m *types.Func
		for i := 0; i < it.NumMethods(); i++ {
			if it.Method(i).Name() == name {
				m = it.Method(i)
			}
		}
		if m == nil {
			return nil, fmt.Errorf("no method %s in %s", name, t)
		}
		bc.Sig = m.Type().(*types.Signature)
		bc.methodObj = m
		n := t.(*types.Named)
		e.ifaceCs[n.Obj().Pkg().Path()+"."+n.Obj().Name()+"."+name] = bc
		return bc, nil
	}
	var fn *ssa.Function
	if rt != "" {
		t, err := e.resolveRecvType(c)
		if err != nil {
			return nil, err
		}
		var mpkg *types.Package
		if n := recvNamed(t); n != nil {
			mpkg = n.Obj().Pkg()
		}
		sel := e.prog.MethodSets.MethodSet(t).Lookup(mpkg, name)
		if sel == nil {
			return nil, fmt.Errorf("no method %s on %s", name, t)
		}
		fn = e.prog.MethodValue(sel)
	} else {
		// plain function, possibly anonymous "outer$1", possibly in another package "pkg.F"
		sp := e.spkgs[c.PkgPath]
		fname := name
		if i := strings.Index(fname, "$"); i > 0 {
			outer := sp.Func(fname[:i])
			if outer == nil {
				return nil, fmt.Errorf("no function %s", fname[:i])
			}
			for _, af := range outer.AnonFuncs {
				if af.Name() == fname {
					fn = af
				}
			}
		} else {
			fn = sp.Func(fname)
		}
		if fn == nil && c.Kind == "extern" {
			// extern func pkgname_F: not supported by Go syntax; use "extern func F()" with "note pkg <path>"
			for _, n := range c.Notes {
				if strings.HasPrefix(n, "pkg ") {
					if sp2 := e.spkgs[strings.TrimSpace(strings.TrimPrefix(n, "pkg "))]; sp2 != nil {
						fn = sp2.Func(fname)
					}
				}
			}
		}
	}
	if fn == nil {
		return nil, fmt.Errorf("function not found")
	}
	bc.Fn = fn
	bc.Sig = fn.Signature
	// parameter count must agree
	want := len(fn.Params)
	got := 0
	if c.Sig.Recv != nil {
		got += len(c.Sig.Recv.List)
	}
	if c.Sig.Type.Params != nil {
		for _, f := range c.Sig.Type.Params.List {
			if len(f.Names) == 0 {
				got++
			} else {
				got += len(f.Names)
			}
		}
	}
	if got != want {
		return nil, fmt.Errorf("contract has %d parameters, function has %d", got, want)
	}
	if old := e.byFn[fn]; old != nil {
		return nil, fmt.Errorf("duplicate contract for %s", fn)
	}
	e.byFn[fn] = bc
	return bc, nil
}

// newWorld creates a world with ghost fields registered.
func (e *Engine) newWorld() (*World, []string) {
	w := NewWorld()
	var errs []string
	byType := map[types.Type][]GhostField{}
	var order []types.Type
	for _, g := range e.cs.Ghosts {
		pkg := e.tpkgs[g.PkgPath]
		obj := pkg.Scope().Lookup(g.TypeName)
		tn, ok := obj.(*types.TypeName)
		if !ok {
			errs = append(errs, fmt.Sprintf("ghost field: unknown type %s", g.TypeName))
			continue
		}
		env := &SpecEnv{cx: &Ctx{eng: e, w: w}, pkg: pkg}
		ft := env.lookupType(g.TypeExpr)
		if ft == nil {
			// spec sorts
			if id, ok := g.TypeExpr.(*ast.Ident); ok && id.Name == "PageSet" {
				errs = append(errs, "ghost field of spec sort not supported yet")
			}
			errs = append(errs, fmt.Sprintf("ghost field %s.%s: unknown type", g.TypeName, g.Field))
			continue
		}
		if _, seen := byType[tn.Type()]; !seen {
			order = append(order, tn.Type())
		}
		byType[tn.Type()] = append(byType[tn.Type()], GhostField{Name: g.Field, Type: ft})
	}
	for _, t := range order {
		w.addGhostFields(t, byType[t])
	}
	for _, g := range e.cs.Guards {
		pkg := e.tpkgs[g.PkgPath]
		tn, ok := pkg.Scope().Lookup(g.TypeName).(*types.TypeName)
		if !ok || !isStructType(tn.Type()) {
			errs = append(errs, "guard: unknown struct type "+g.TypeName)
			continue
		}
		f, _, ok := w.structInfo(tn.Type()).field(g.Field)
		if !ok {
			errs = append(errs, "guard: no field "+g.TypeName+"."+g.Field)
			continue
		}
		w.guards[f.FID] = &boundGuard{g: g, structT: tn.Type(), pkg: pkg}
	}
	for _, g := range e.cs.FieldAssumes {
		pkg := e.tpkgs[g.PkgPath]
		tn, ok := pkg.Scope().Lookup(g.TypeName).(*types.TypeName)
		if !ok || !isStructType(tn.Type()) {
			errs = append(errs, "assume-field: unknown struct type "+g.TypeName)
			continue
		}
		f, _, ok := w.structInfo(tn.Type()).field(g.Field)
		if !ok {
			errs = append(errs, "assume-field: no field "+g.TypeName+"."+g.Field)
			continue
		}
		w.fieldAssume[f.FID] = &boundGuard{g: g, structT: tn.Type(), pkg: pkg}
	}
	for _, ex := range e.cs.Exempt {
		pkg := e.tpkgs[ex.PkgPath]
		if tn, ok := pkg.Scope().Lookup(ex.TypeName).(*types.TypeName); ok && isStructType(tn.Type()) {
			for _, f := range w.structInfo(tn.Type()).Fields {
				w.exemptFID[f.FID] = true
			}
		} else {
			errs = append(errs, "frame-exempt: unknown struct type "+ex.TypeName)
		}
	}
	return w, errs
}
