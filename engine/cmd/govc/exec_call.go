package main

import (
	"fmt"
	"go/ast"
	"go/token"
	"go/types"
	"sort"
	"strings"

	"golang.org/x/tools/go/ssa"
)

type astExpr = ast.Expr

const maxInlineDepth = 12

// call executes a call instruction (or deferred call) and returns its results.
func (fr *Frame) call(c *ssa.CallCommon, p token.Pos, instr ssa.Instruction) []Val {
	var args []Val
	for _, a := range c.Args {
		v := fr.val(a)
		v.typ = a.Type()
		args = append(args, v)
	}
	if c.IsInvoke() {
		recv := fr.val(c.Value)
		recv.typ = c.Value.Type()
		return fr.invoke(recv, c.Method, args, p)
	}
	switch callee := c.Value.(type) {
	case *ssa.Builtin:
		return fr.builtin(callee, c, args, p)
	case *ssa.Function:
		return fr.callFunc(callee, nil, args, p)
	}
	fv := fr.val(c.Value)
	if fv.fn == nil && fr.cx.bc != nil {
		// function value loaded from a struct field that has a `fnparam .<field>` spec in the contract under verification
		if u, ok := c.Value.(*ssa.UnOp); ok && u.Op == token.MUL {
			if fa, ok := u.X.(*ssa.FieldAddr); ok {
				if pt, ok := fa.X.Type().Underlying().(*types.Pointer); ok {
					if st, ok := pt.Elem().Underlying().(*types.Struct); ok {
						if sp := fr.cx.bc.C.FnParams["."+st.Field(fa.Field).Name()]; sp != nil {
							cx := fr.cx
							pkg := fr.eng().typesPackage(cx.bc.C.PkgPath)
							pfv := &FuncVal{param: sp, paramEnv: func(cargs []Val, cur, old *State) *SpecEnv {
								vars := map[string]Val{}
								for k, v := range cx.topVars {
									vars[k] = v
								}
								for j, ca := range cargs {
									vars[fmt.Sprintf("arg%d", j)] = ca
								}
								return &SpecEnv{cx: cx, pkg: pkg, vars: vars, cur: cur, old: old}
							}}
							fr.safety("nil-func", p, fr.b().Neq(fv.t, fr.b().Int(0)))
							return fr.callFnParam(pfv, args, p, c.Signature())
						}
					}
				}
			}
		}
	}
	if phi, ok := c.Value.(*ssa.Phi); ok && fv.fn == nil {
		if fns := phiFuncs(phi, map[*ssa.Phi]bool{}); len(fns) > 0 {
			return fr.callOneOf(fv, fns, args, p)
		}
	}
	return fr.callValue(fv, args, p, describeCallee(c), c.Signature())
}

// phiFuncs: the plain functions a phi of function constants can denote (nil if anything else flows in).
func phiFuncs(phi *ssa.Phi, seen map[*ssa.Phi]bool) []*ssa.Function {
	if seen[phi] {
		return nil
	}
	seen[phi] = true
	var out []*ssa.Function
	add := func(f *ssa.Function) {
		for _, g := range out {
			if g == f {
				return
			}
		}
		out = append(out, f)
	}
	for _, e := range phi.Edges {
		switch x := e.(type) {
		case *ssa.Function:
			add(x)
		case *ssa.Phi:
			sub := phiFuncs(x, seen)
			if sub == nil {
				return nil
			}
			for _, f := range sub {
				add(f)
			}
		default:
			return nil
		}
	}
	return out
}

// callOneOf executes an indirect call whose target is one of a closed list of
// plain functions: one execution per candidate, merged by the value of the target.
func (fr *Frame) callOneOf(fv Val, fns []*ssa.Function, args []Val, p token.Pos) []Val {
	b := fr.b()
	st0, reach0 := fr.st, fr.reach
	type out struct {
		cond, reach *Term
		st          *State
		res         []Val
	}
	var outs []out
	var conds []*Term
	for _, fn := range fns {
		cond := b.Eq(fv.t, b.Int(int64(fr.w().funcID(fn))))
		conds = append(conds, cond)
	}
	fr.safety("func-value", p, b.Or(conds...))
	for i, fn := range fns {
		fr.st, fr.reach = st0.clone(), b.And(reach0, conds[i])
		res := fr.callFunc(fn, nil, args, p)
		outs = append(outs, out{cond: conds[i], reach: fr.reach, st: fr.st, res: res})
	}
	names := map[string]bool{}
	for _, o := range outs {
		for k := range o.st.heaps {
			names[k] = true
		}
	}
	merged := newState()
	for _, k := range sortedKeys(names) {
		h := outs[len(outs)-1].st.heap(fr.cx, k)
		for i := len(outs) - 2; i >= 0; i-- {
			h = b.Ite(outs[i].cond, outs[i].st.heap(fr.cx, k), h)
		}
		merged.set(k, b.Name(k, h))
	}
	var rs []*Term
	for _, o := range outs {
		rs = append(rs, o.reach)
	}
	fr.st, fr.reach = merged, b.Or(rs...)
	last := outs[len(outs)-1].res
	res := make([]Val, len(last))
	for j := range last {
		t := last[j].t
		for i := len(outs) - 2; i >= 0; i-- {
			t = b.Ite(outs[i].cond, outs[i].res[j].t, t)
		}
		res[j] = Val{t: t, typ: last[j].typ}
	}
	return res
}

func (fr *Frame) callValue(fv Val, args []Val, p token.Pos, what string, sig *types.Signature) []Val {
	b := fr.b()
	if fv.fn != nil {
		if fv.fn.param != nil {
			return fr.callFnParam(fv.fn, args, p, sig)
		}
		// the value must still be the function we resolved statically
		if fv.t != nil {
			want := b.Int(int64(fr.w().funcID(fv.fn.fn)))
			if def(fv.t) != def(want) {
				fr.oblige("func-value", fv.fn.fn.Name(), "indirect call target is the statically resolved function", p, b.Eq(fv.t, want))
			}
		}
		return fr.callFunc(fv.fn.fn, fv.fn.bindings, args, p)
	}
	fr.safety("nil-func", p, b.Neq(fv.t, b.Int(0)))
	fr.cx.undecide("call of unresolved function value %s at %s in %s", what, fr.pos(p), fr.fn)
	fr.reach = b.False()
	return fr.freshResults(sig.Results())
}

func (fr *Frame) freshResults(res *types.Tuple) []Val { return fr.freshResultsSkip(res, nil) }

func (fr *Frame) freshResultsSkip(res *types.Tuple, fresh map[int]bool) []Val {
	var out []Val
	for i := 0; i < res.Len(); i++ {
		t := res.At(i).Type()
		v := fr.b().Const("res", fr.w().sortOf(t))
		fr.assume(fr.cx.typeInv(v, t))
		if !fresh[i] {
			fr.assume(fr.cx.notFuture(v))
		}
		out = append(out, Val{t: v, typ: t})
	}
	return out
}

// callFunc calls a statically known function: by contract, inlined, or by a
// built-in model.
func (fr *Frame) callFunc(fn *ssa.Function, bindings []Val, args []Val, p token.Pos) []Val {
	b := fr.b()
	eng := fr.eng()
	// synthetic wrappers ($bound, $thunk): unwrap to the method
	if fn.Synthetic != "" && strings.HasPrefix(fn.Synthetic, "bound method wrapper") {
		if obj, ok := fn.Object().(*types.Func); ok && len(bindings) == 1 {
			if recv := obj.Type().(*types.Signature).Recv(); recv != nil {
				if _, isIface := recv.Type().Underlying().(*types.Interface); isIface {
					rv := bindings[0]
					if rv.typ == nil {
						rv.typ = recv.Type()
					}
					return fr.invoke(rv, obj, args, p)
				}
			}
		}
		if m := eng.methodOfWrapper(fn); m != nil {
			return fr.callFunc(m, nil, append(append([]Val{}, bindings...), args...), p)
		}
	}
	if res, ok := fr.intrinsic(fn, args, p); ok {
		return res
	}
	bc := eng.contractFor(fn)
	if bc != nil && !bc.C.Inline && !bc.C.AlsoInline {
		return fr.callContract(bc, args, p)
	}
	// inline
	if len(fn.Blocks) == 0 {
		if eng.isPureExternal(fn) {
			fr.cx.trust(fmt.Sprintf("external %s: treated as total and side-effect free, result arbitrary", fn))
			return fr.freshResults(fn.Signature.Results())
		}
		fr.cx.undecide("call of %s without body or contract at %s", fn, fr.pos(p))
		fr.reach = b.False()
		return fr.freshResults(fn.Signature.Results())
	}
	if !eng.inModule(fn) && (bc == nil || !bc.C.Inline) {
		if eng.isPureExternal(fn) {
			fr.cx.trust(fmt.Sprintf("external %s: treated as total and side-effect free, result arbitrary", fn))
			return fr.freshResults(fn.Signature.Results())
		}
		fr.cx.undecide("call of external %s without contract at %s", fn, fr.pos(p))
		fr.reach = b.False()
		return fr.freshResults(fn.Signature.Results())
	}
	for _, s := range fr.cx.stack {
		if s == fn {
			fr.cx.undecide("recursive call of %s without contract", fn)
			fr.reach = b.False()
			return fr.freshResults(fn.Signature.Results())
		}
	}
	if fr.depth >= maxInlineDepth {
		fr.cx.undecide("inline depth exceeded at %s calling %s", fr.fn, fn)
		fr.reach = b.False()
		return fr.freshResults(fn.Signature.Results())
	}
	if bc == nil && !eng.autoInline(fn) {
		fr.cx.undecide("callee %s has no contract and is not auto-inlinable (called from %s at %s)", fn, fr.fn, fr.pos(p))
		fr.reach = b.False()
		return fr.freshResults(fn.Signature.Results())
	}
	return fr.inline(fn, bindings, args)
}

func (fr *Frame) inline(fn *ssa.Function, bindings []Val, args []Val) []Val {
	sub := &Frame{cx: fr.cx, fn: fn, vals: map[ssa.Value]Val{}, params: args, free: bindings, depth: fr.depth + 1, parent: fr}
	sub.vars = map[string]Val{}
	if bc := fr.eng().contractFor(fn); bc != nil {
		sub.vars = bc.bindParams(args)
	} else {
		for i, pm := range fn.Params {
			if i < len(args) {
				sub.vars[pm.Name()] = args[i]
			}
		}
	}
	fr.cx.stack = append(fr.cx.stack, fn)
	res, st, reach := sub.run(fr.st, fr.reach)
	fr.cx.stack = fr.cx.stack[:len(fr.cx.stack)-1]
	fr.st = st.clone()
	fr.reach = reach
	return res
}

// callContract applies a callee's contract at a call site.
func (fr *Frame) callContract(bc *BoundContract, args []Val, p token.Pos) []Val {
	b := fr.b()
	c := bc.C
	short := bc.Short()
	fr.callN[short]++
	site := short
	if n := fr.callN[short]; n > 1 {
		site = fmt.Sprintf("%s@%d", short, n)
	}
	if c.Trusted != "" {
		fr.cx.trust(fmt.Sprintf("trusted contract of %s: %s", bc.Name(), c.Trusted))
	} else if c.Kind == "extern" {
		fr.cx.trust(fmt.Sprintf("assumed contract of external %s", bc.Name()))
	} else if c.Kind == "interface" {
		fr.cx.trust(fmt.Sprintf("assumed interface contract %s", bc.Name()))
	} else if c.Abstract != "" {
		fr.cx.trust(fmt.Sprintf("contract of %s assumed, body not verified: %s", bc.Name(), c.Abstract))
	}
	for _, a := range args {
		if a.t != nil {
			fr.cx.noteEscape(a.t)
		}
		if a.fn != nil {
			for _, bv := range a.fn.bindings {
				fr.cx.noteEscape(bv.t)
			}
		}
	}
	old := fr.st.clone()
	vars := bc.bindParams(args)
	// a bound method value passed as argument: its receiver is visible to the contract as <param>_recv
	for k, v := range vars {
		if v.fn != nil && v.fn.fn != nil && len(v.fn.bindings) == 1 && len(v.fn.fn.FreeVars) == 1 {
			rv := v.fn.bindings[0]
			rv.typ = v.fn.fn.FreeVars[0].Type()
			vars[k+"_recv"] = rv
		}
	}
	pkg := fr.eng().typesPackage(c.PkgPath)
	env := &SpecEnv{cx: fr.cx, pkg: pkg, vars: vars, cur: fr.st, old: old}
	// call-site conditions demanded by the contract of the function under verification
	if top := fr.cx.bc; top != nil && top.C.Before != nil {
		cname := c.Sig.Name.Name
		for bi, bcl := range top.C.Before[cname] {
			root := fr
			for root.parent != nil {
				root = root.parent
			}
			tvars := map[string]Val{}
			for k, v := range root.specEnv(fr.st).vars { // parameters and the named locals of the verified function
				tvars[k] = v
			}
			for j, a := range args {
				tvars[fmt.Sprintf("arg%d", j)] = a
			}
			tenv := &SpecEnv{cx: fr.cx, pkg: fr.eng().typesPackage(top.C.PkgPath), vars: tvars, cur: fr.st, old: root.entry, rets: root.lastRets, retNames: root.lastRetNames, called: root.lastCalled}
			if g := fr.evalClause(tenv, bcl); g != nil {
				fr.oblige("call-site", "before-"+cname+"."+clauseLabel(bcl, bi), bcl.Text, p, g)
			}
		}
	}
	for i, rq := range c.Requires {
		if rq.Assumed {
			fr.cx.trust(fmt.Sprintf("entry invariant of %s (assumed at its entry, not demanded from this caller): %s", bc.Short(), rq.Text))
			continue
		}
		if g := fr.evalClause(env, rq); g != nil {
			fr.oblige("call-pre", site+"."+clauseLabel(rq, i), rq.Text, p, g)
		}
	}
	// havoc
	menv := &SpecEnv{cx: fr.cx, pkg: pkg, vars: vars, cur: old, old: old}
	for _, mc := range c.Modifies {
		for _, x := range mc.Exprs {
			for _, m := range fr.evalLocs(menv, x, mc) {
				if m.loc != nil {
					fr.checkGuard(m.loc, m.typ, p, "call "+short)
				}
				fr.cx.havocLoc(fr.st, m)
			}
		}
	}
	// type-based frame: a callee from a package the verified package imports cannot name the
	// struct types declared in the verified package, hence cannot write their fields
	fr.typeFrameAfterCall(bc, old)
	// closures handed to the callee may run: the variables they capture become arbitrary
	for _, a := range args {
		if a.fn == nil || a.fn.param != nil {
			continue
		}
		for bi, bv := range a.fn.bindings {
			if bv.t == nil || bv.t.sort != SLoc {
				continue
			}
			var pt types.Type
			if a.fn.fn != nil && bi < len(a.fn.fn.FreeVars) {
				pt = a.fn.fn.FreeVars[bi].Type()
			}
			if p, ok := pt.(*types.Pointer); ok && locCtor(def(bv.t)) == "New" && closureMayWrite(a.fn.fn, bi) {
				fr.cx.havocLoc(fr.st, ModLoc{loc: bv.t, typ: p.Elem(), text: "captured variable"})
			}
		}
	}
	// results
	freshIdx := map[int]bool{}
	if len(c.Fresh) > 0 {
		probe := map[string]Val{}
		var dummy []Val
		for i := 0; i < bc.Sig.Results().Len(); i++ {
			dummy = append(dummy, Val{t: b.Int(int64(i))})
		}
		bc.bindResults(probe, dummy)
		for _, fname := range c.Fresh {
			if pv, ok := probe[fname]; ok {
				var k int
				fmt.Sscan(pv.t.op, &k)
				freshIdx[k] = true
			}
		}
	}
	res := fr.freshResultsSkip(bc.Sig.Results(), freshIdx)
	rvars := map[string]Val{}
	for k, v := range vars {
		rvars[k] = v
	}
	bc.bindResults(rvars, res)
	for _, fname := range c.Fresh {
		for i := range res {
			if rv, ok := rvars[fname]; ok && rv.t == res[i].t && res[i].t.sort == SLoc {
				fr.cx.newN++
				fr.assume(b.Or(b.IsNil(res[i].t), b.Eq(res[i].t, b.NewObj(fr.cx.newN))))
			}
		}
	}
	bc.bindResults(rvars, res)
	fr.foreignResultTypes(bc, res)
	if fr.lastRets == nil {
		fr.lastRets = map[string][]Val{}
		fr.lastRetNames = map[string]map[string]int{}
	}
	{
		cname := bc.C.Sig.Name.Name
		if bc.Fn != nil {
			cname = bc.Fn.Name()
		}
		// calls made in inlined helpers are visible to the contract of the function under verification too
		for f := fr; f != nil; f = f.parent {
			if f.lastRets == nil {
				f.lastRets = map[string][]Val{}
				f.lastRetNames = map[string]map[string]int{}
			}
		}
		for f := fr; f != nil; f = f.parent {
			if f.lastCalled == nil {
				f.lastCalled = map[string]*Term{}
			}
			f.lastCalled[cname] = b.Or(calledTerm(b, f.lastCalled, cname), fr.reach)
		}
		fr.lastRets[cname] = res
		names := map[string]int{}
		i := 0
		if c.Sig.Type.Results != nil {
			for _, f := range c.Sig.Type.Results.List {
				if len(f.Names) == 0 {
					i++
					continue
				}
				for _, nm := range f.Names {
					names[nm.Name] = i
					i++
				}
			}
		}
		fr.lastRetNames[cname] = names
		for f := fr.parent; f != nil; f = f.parent {
			f.lastRets[cname] = res
			f.lastRetNames[cname] = names
		}
	}
	env2 := &SpecEnv{cx: fr.cx, pkg: pkg, vars: rvars, cur: fr.st, old: old}
	for _, sc := range c.Sets {
		applyGhostSet(fr.cx, env2, sc, fr.st)
	}
	for _, en := range c.Ensures {
		if strings.Contains(en.Text, "ret(") || strings.Contains(en.Text, "called(") || strings.Contains(en.Text, "iter(") {
			continue // speaks about calls made inside the callee: not expressible at the call site (assuming less is sound)
		}
		if en.Assumed {
			fr.cx.trust(fmt.Sprintf("assumed postcondition of %s: %s", bc.Short(), en.Text))
		}
		if g := fr.evalClause(env2, en); g != nil {
			fr.assume(g)
		}
	}
	// rely conditions of the function under verification (what other threads guarantee when this call returns)
	if top := fr.cx.bc; top != nil && top.C.Rely != nil {
		cname := c.Sig.Name.Name
		for _, rcl := range top.C.Rely[cname] {
			root := fr
			for root.parent != nil {
				root = root.parent
			}
			tvars := map[string]Val{}
			for k, v := range root.specEnv(fr.st).vars {
				tvars[k] = v
			}
			tenv := &SpecEnv{cx: fr.cx, pkg: fr.eng().typesPackage(top.C.PkgPath), vars: tvars, cur: fr.st, old: root.entry, rets: root.lastRets, retNames: root.lastRetNames, called: root.lastCalled}
			if g := fr.evalClause(tenv, rcl); g != nil {
				fr.assume(g)
				fr.cx.trust(fmt.Sprintf("rely (monitor rule) in %s: after %s returns, %s", shortName(top.Name()), cname, rcl.Text))
			}
		}
	}
	_ = b
	return res
}

// closureMayWrite: may the function literal write the variable it captures as
// free variable idx (or let its address escape)?
func closureMayWrite(fn *ssa.Function, idx int) bool {
	if fn == nil || idx >= len(fn.FreeVars) || len(fn.Blocks) == 0 {
		return true
	}
	fv := fn.FreeVars[idx]
	derived := map[ssa.Value]bool{fv: true}
	for pass := 0; pass < 3; pass++ {
		for _, b := range fn.Blocks {
			for _, ins := range b.Instrs {
				switch x := ins.(type) {
				case *ssa.FieldAddr:
					if derived[x.X] {
						derived[x] = true
					}
				case *ssa.IndexAddr:
					if derived[x.X] {
						derived[x] = true
					}
				case *ssa.ChangeType:
					if derived[x.X] {
						derived[x] = true
					}
				}
			}
		}
	}
	for _, b := range fn.Blocks {
		for _, ins := range b.Instrs {
			switch x := ins.(type) {
			case *ssa.Store:
				if derived[x.Addr] || derived[x.Val] {
					return true
				}
			case ssa.CallInstruction:
				for _, a := range x.Common().Args {
					if derived[a] {
						return true
					}
				}
			case *ssa.MakeClosure:
				for _, bv := range x.Bindings {
					if derived[bv] {
						return true
					}
				}
			case *ssa.MapUpdate:
				if derived[x.Value] {
					return true
				}
			case *ssa.MakeInterface:
				if derived[x.X] {
					return true
				}
			case *ssa.Return:
				for _, r := range x.Results {
					if derived[r] {
						return true
					}
				}
			}
		}
	}
	return false
}

// callFnParam: call of a function-typed parameter described by a fnparam spec.
func (fr *Frame) callFnParam(fv *FuncVal, args []Val, p token.Pos, sig *types.Signature) []Val {
	sp := fv.param
	for _, a := range args {
		if a.t != nil {
			fr.cx.noteEscape(a.t)
		}
	}
	old := fr.st.clone()
	env := fv.paramEnv(args, fr.st, old)
	for i, rq := range sp.Requires {
		if g := fr.evalClause(env, rq); g != nil {
			fr.oblige("call-pre", "fnparam."+sp.Name+"."+clauseLabel(rq, i), rq.Text, p, g)
		}
	}
	menv := fv.paramEnv(args, old, old)
	for _, mc := range sp.Modifies {
		for _, x := range mc.Exprs {
			for _, m := range fr.evalLocs(menv, x, mc) {
				fr.cx.havocLoc(fr.st, m)
			}
		}
	}
	res := fr.freshResults(sig.Results())
	env2 := fv.paramEnv(args, fr.st, old)
	for i, r := range res {
		env2.vars[fmt.Sprintf("result%d", i)] = r
		if len(res) == 1 {
			env2.vars["result"] = r
		}
	}
	for _, en := range sp.Ensures {
		if g := fr.evalClause(env2, en); g != nil {
			fr.assume(g)
		}
	}
	fr.cx.trust(fmt.Sprintf("function parameter %s of %s behaves as its fnparam spec says", sp.Name, fr.fn))
	return res
}

// invoke: interface method call.
func (fr *Frame) invoke(recv Val, m *types.Func, args []Val, p token.Pos) []Val {
	b, w := fr.b(), fr.w()
	eng := fr.eng()
	sig := m.Type().(*types.Signature)
	fr.safety("nil-iface", p, b.Neq(w.itype(recv.t), b.Int(0)))
	// statically known dynamic type?
	it := def(w.itype(recv.t))
	if isLit(it) {
		var id int
		fmt.Sscan(it.op, &id)
		if id >= 1 && id <= len(w.typeList) {
			dt := w.typeList[id-1]
			if fn := eng.methodFunc(dt, m); fn != nil {
				rv := fr.cx.unbox(recv.t, dt)
				return fr.callFunc(fn, nil, append([]Val{rv}, args...), p)
			}
		}
	}
	bc := eng.interfaceContract(recv.typ, m)
	if bc == nil {
		fr.cx.undecide("interface call %s.%s without interface contract at %s in %s", recv.typ, m.Name(), fr.pos(p), fr.fn)
		fr.reach = b.False()
		return fr.freshResults(sig.Results())
	}
	if len(bc.C.Dispatch) > 0 {
		// closed world: the dynamic type is one of the listed types
		var ids []*Term
		var dts []types.Type
		pkg := eng.typesPackage(bc.C.PkgPath)
		env := &SpecEnv{cx: fr.cx, pkg: pkg}
		for _, tn := range bc.C.Dispatch {
			te, err := parseTypeExpr(tn)
			if err != nil {
				fr.cx.undecide("bad dispatch type %s", tn)
				continue
			}
			dt := env.lookupType(te)
			if dt == nil {
				fr.cx.undecide("unknown dispatch type %s", tn)
				continue
			}
			dts = append(dts, dt)
			ids = append(ids, b.Eq(w.itype(recv.t), b.Int(int64(w.typeID(dt)))))
		}
		fr.oblige("call-pre", bc.Short()+".dispatch", "dynamic type is one of "+strings.Join(bc.C.Dispatch, ", "), p, b.Or(ids...))
		// conditional execution per type
		base := fr.reach
		startSt := fr.st
		type outc struct {
			g   *Term
			st  *State
			res []Val
			ok  *Term
		}
		var outs []outc
		for i, dt := range dts {
			fn := eng.methodFunc(dt, m)
			if fn == nil {
				fr.cx.undecide("no method %s on %s", m.Name(), dt)
				continue
			}
			fr.st = startSt.clone()
			fr.reach = b.And(base, ids[i])
			rv := fr.cx.unbox(recv.t, dt)
			res := fr.callFunc(fn, nil, append([]Val{rv}, args...), p)
			outs = append(outs, outc{ids[i], fr.st, res, fr.reach})
		}
		if len(outs) == 0 {
			fr.reach = b.False()
			return fr.freshResults(sig.Results())
		}
		// merge
		names := map[string]bool{}
		for _, o := range outs {
			for k := range o.st.heaps {
				names[k] = true
			}
		}
		merged := newState()
		for _, k := range sortedKeys(names) {
			h := outs[len(outs)-1].st.heap(fr.cx, k)
			for i := len(outs) - 2; i >= 0; i-- {
				h = b.Ite(outs[i].g, outs[i].st.heap(fr.cx, k), h)
			}
			merged.set(k, b.Name(k, h))
		}
		var results []Val
		for j := 0; j < sig.Results().Len(); j++ {
			v := outs[len(outs)-1].res[j].t
			for i := len(outs) - 2; i >= 0; i-- {
				v = b.Ite(outs[i].g, outs[i].res[j].t, v)
			}
			results = append(results, Val{t: v, typ: sig.Results().At(j).Type()})
		}
		var rs []*Term
		for _, o := range outs {
			rs = append(rs, o.ok)
		}
		fr.st = merged
		fr.reach = b.Or(rs...)
		return results
	}
	return fr.callContract(bc, append([]Val{recv}, args...), p)
}

func parseTypeExpr(s string) (ast.Expr, error) {
	return parserParseExpr(s)
}

// ---------- defers ----------

func (fr *Frame) runDefers() { fr.runDefersAt(nil) }

// canReach: is there a CFG path from block a to block c?
func canReach(a, c *ssa.BasicBlock) bool {
	seen := map[*ssa.BasicBlock]bool{}
	var dfs func(x *ssa.BasicBlock) bool
	dfs = func(x *ssa.BasicBlock) bool {
		if x == c {
			return true
		}
		if seen[x] {
			return false
		}
		seen[x] = true
		for _, s := range x.Succs {
			if dfs(s) {
				return true
			}
		}
		return false
	}
	return dfs(a)
}

func (fr *Frame) runDefersAt(at *ssa.BasicBlock) {
	b := fr.b()
	ds := fr.defers
	for i := len(ds) - 1; i >= 0; i-- {
		d := ds[i]
		// the defer statement was executed on this path iff its reach holds
		g := d.reach
		if at != nil && d.instr.Block() != nil {
			db := d.instr.Block()
			if db == at || db.Dominates(at) {
				g = b.True() // registered on every path that gets here
			} else if !canReach(db, at) {
				continue // never registered on a path that gets here
			}
		}
		base := fr.reach
		cond := b.And(base, g)
		if isFalse(cond) {
			continue
		}
		before := fr.st
		fr.st = before.clone()
		fr.reach = cond
		c := &d.instr.Call
		if c.IsInvoke() {
			fr.invoke(d.fnv, c.Method, d.args, d.instr.Pos())
		} else {
			switch callee := c.Value.(type) {
			case *ssa.Builtin:
				fr.builtinVals(callee.Name(), c, d.args, d.instr.Pos())
			case *ssa.Function:
				fr.callFunc(callee, nil, d.args, d.instr.Pos())
			default:
				fr.callValue(d.fnv, d.args, d.instr.Pos(), describeCallee(c), c.Signature())
			}
		}
		after, afterReach := fr.st, fr.reach
		// merge: if the defer was not registered the state is unchanged
		if def(g) == def(b.True()) || isTrue(b.Implies(base, g)) {
			fr.st, fr.reach = after, afterReach
			continue
		}
		names := map[string]bool{}
		for k := range after.heaps {
			names[k] = true
		}
		merged := before.clone()
		for _, k := range sortedKeys(names) {
			ha, hb := after.heap(fr.cx, k), before.heap(fr.cx, k)
			if def(ha) != def(hb) {
				merged.set(k, b.Name(k, b.Ite(g, ha, hb)))
			}
		}
		fr.st = merged
		fr.reach = b.And(base, b.Or(b.Not(g), afterReach))
	}
}

// ---------- builtins ----------

func (fr *Frame) builtin(bi *ssa.Builtin, c *ssa.CallCommon, args []Val, p token.Pos) []Val {
	return fr.builtinVals(bi.Name(), c, args, p)
}

func (fr *Frame) builtinVals(name string, c *ssa.CallCommon, args []Val, p token.Pos) []Val {
	b, w := fr.b(), fr.w()
	intT := types.Typ[types.Int]
	switch name {
	case "len", "cap":
		x := args[0]
		switch u := c.Args[0].Type().Underlying().(type) {
		case *types.Slice:
			if name == "len" {
				return []Val{{t: w.slen(x.t), typ: intT}}
			}
			return []Val{{t: w.scap(x.t), typ: intT}}
		case *types.Map:
			_, _, lnH := w.mapHeapNames(u)
			l := b.Name("maplen", b.Ite(b.IsNil(x.t), b.BV(0, 64), b.Select(fr.st.heap(fr.cx, lnH), x.t)))
			fr.assume(b.And(b.BVCmp("bvsge", l, b.BV(0, 64)), b.BVCmp("bvslt", l, b.BV(1<<62, 64))))
			return []Val{{t: l, typ: intT}}
		case *types.Basic: // string
			v := b.Const("strlen", SBV(64))
			fr.assume(b.BVCmp("bvsge", v, b.BV(0, 64)))
			return []Val{{t: v, typ: intT}}
		case *types.Array:
			return []Val{{t: b.BV(uint64(u.Len()), 64), typ: intT}}
		case *types.Pointer:
			at := u.Elem().Underlying().(*types.Array)
			return []Val{{t: b.BV(uint64(at.Len()), 64), typ: intT}}
		}
	case "append":
		return []Val{fr.appendSlice(c, args, p)}
	case "copy":
		return []Val{fr.copySlice(c, args, p)}
	case "delete":
		mt := c.Args[0].Type().Underlying().(*types.Map)
		fr.mapDelete(args[0], mt, args[1])
		return nil
	case "print", "println":
		return nil
	case "ssa:wrapnilchk":
		fr.safety("nil-deref", p, b.Not(b.IsNil(args[0].t)))
		return []Val{args[0]}
	case "min", "max":
		x, y := args[0], args[1]
		lt := b.BVCmp("bvult", x.t, y.t)
		if isSigned(x.typ) {
			lt = b.BVCmp("bvslt", x.t, y.t)
		}
		if name == "min" {
			return []Val{{t: b.Ite(lt, x.t, y.t), typ: x.typ}}
		}
		return []Val{{t: b.Ite(lt, y.t, x.t), typ: x.typ}}
	}
	fr.cx.undecide("unsupported builtin %s in %s", name, fr.fn)
	fr.reach = b.False()
	var out []Val
	if c != nil {
		out = fr.freshResults(c.Signature().Results())
	}
	return out
}

// transformHeaps replaces, for every leaf sort of element type el, the heap H
// by a heap H' with H'[l] = f(l) for l in the destination region and H[l]
// elsewhere. region(l) says whether leaf location l lies in the destination
// elements [dstBase, dstOff .. dstOff+n); src maps such l to the source cell.
func (fr *Frame) transformHeaps(el types.Type, dstBase, dstOff, n, srcBase, srcOff *Term) {
	b, w := fr.b(), fr.w()
	sorts := map[Sort]bool{}
	fr.cx.leafSorts(el, sorts)
	for _, sn := range sortedKeys(sortsToStrings(sorts)) {
		s := Sort(sn)
		hn := w.heapName(s)
		h := fr.st.heap(fr.cx, hn)
		nh := b.Const("cp_"+hn, h.sort)
		l := b.BVar(fmt.Sprintf("l?%d", fr.cx.nextBound()), SLoc)
		// decompose l along the element type: l = path(Elem(dstBase, idx))
		var conds []*Term
		var srcs []*Term
		fr.elemPaths(l, el, s, func(elemLoc *Term, rebuild func(*Term) *Term) {
			idx := b.App("eidx", SBV(64), elemLoc)
			rel := b.BVOp("bvsub", idx, dstOff)
			in := b.And(b.mk("(_ is Elem)", SBool, elemLoc), b.Eq(b.App("ebase", SLoc, elemLoc), dstBase), b.BVCmp("bvult", rel, n))
			conds = append(conds, in)
			srcs = append(srcs, b.Select(h, rebuild(b.Elem(srcBase, b.BVOp("bvadd", srcOff, rel)))))
		})
		val := b.Select(h, l)
		for i := len(conds) - 1; i >= 0; i-- {
			val = b.Ite(conds[i], srcs[i], val)
		}
		fr.assume(b.Forall([]BoundVar{{strings.Trim(l.op, "|"), SLoc}}, b.Eq(b.Select(nh, l), val), b.Select(nh, l)))
		fr.st.set(hn, nh)
	}
}

func sortsToStrings(m map[Sort]bool) map[string]bool {
	o := map[string]bool{}
	for k := range m {
		o[string(k)] = true
	}
	return o
}

// elemPaths enumerates the ways a leaf location l of sort s can sit inside an
// element of type el: calls fn(elemLoc, rebuild) where elemLoc is the term for
// the element's address derived from l and rebuild maps another element address
// to the corresponding leaf.
func (fr *Frame) elemPaths(l *Term, el types.Type, s Sort, fn func(elemLoc *Term, rebuild func(*Term) *Term)) {
	b, w := fr.b(), fr.w()
	// leaf elements, and structs of leaf fields
	if isLeafType(el) {
		if w.sortOf(el) == s {
			fn(l, func(e *Term) *Term { return e })
		}
		return
	}
	if _, ok := el.Underlying().(*types.Struct); ok {
		si := w.structInfo(el)
		for _, f := range si.Fields {
			f := f
			if isLeafType(f.Type) && w.sortOf(f.Type) == s {
				// l = Fld(elem, fid)
				elem := b.App("fbase", SLoc, l)
				isF := b.And(b.mk("(_ is Fld)", SBool, l), b.Eq(b.App("fid", SInt, l), b.Int(int64(f.FID))))
				fn(condLoc(b, isF, elem), func(e *Term) *Term { return b.Fld(e, f.FID) })
			} else if !isLeafType(f.Type) {
				fr.cx.trust("copy/append of slice elements with nested aggregates: nested parts not copied in the model")
			}
		}
	}
}

// condLoc returns x if c holds, else Nil (which never is an Elem).
func condLoc(b *TermBank, c, x *Term) *Term { return b.Ite(c, x, b.Nil()) }

func (fr *Frame) appendSlice(c *ssa.CallCommon, args []Val, p token.Pos) Val {
	b, w := fr.b(), fr.w()
	s, t := args[0], args[1]
	st := c.Args[0].Type().Underlying().(*types.Slice)
	el := st.Elem()
	if _, ok := c.Args[1].Type().Underlying().(*types.Slice); !ok {
		// append([]byte, string...)
		fr.cx.trust("append of string to byte slice not modelled")
		v := b.Const("app", SSlice)
		fr.assume(fr.cx.typeInv(v, c.Args[0].Type()))
		return Val{t: v, typ: c.Args[0].Type()}
	}
	n := w.slen(t.t)
	ln, cp := w.slen(s.t), w.scap(s.t)
	newLen := b.Name("applen", b.BVOp("bvadd", ln, n))
	fits := b.Name("appfits", b.BVCmp("bvsle", newLen, cp))
	// in place
	fr.cx.newN++
	fr.cx.dynAlloc = true
	nb := b.NewObj(fr.cx.newN)
	fr.needZeroAxioms(el)
	ncap := b.Const("appcap", SBV(64))
	fr.assume(b.And(b.BVCmp("bvsge", ncap, newLen), b.BVCmp("bvslt", ncap, b.BV(1<<62, 64))))
	base := b.Name("appbase", b.Ite(fits, w.sbase(s.t), nb))
	off := b.Name("appoff", b.Ite(fits, w.soff(s.t), b.BV(0, 64)))
	res := w.mkSlice(base, off, newLen, b.Ite(fits, cp, ncap))
	// contents: when reallocating copy the old elements first
	one, isOne := bvLit(n)
	if !(isOne && one == 0) {
		// reallocation: copy old elements [0,ln) to the new base (only matters if !fits)
		saved := fr.st.clone()
		fr.transformHeaps(el, nb, b.BV(0, 64), ln, w.sbase(s.t), w.soff(s.t))
		// under `fits` keep the old heaps
		for k, h := range fr.st.heaps {
			old := saved.heap(fr.cx, k)
			if def(h) != def(old) {
				fr.st.set(k, b.Name(k, b.Ite(fits, old, h)))
			}
		}
		// then write the appended elements
		if isOne && one <= 4 {
			for j := uint64(0); j < one; j++ {
				src := b.Elem(w.sbase(t.t), b.BVOp("bvadd", w.soff(t.t), b.BV(j, 64)))
				v := fr.cx.load(fr.st, src, el)
				dst := b.Elem(base, b.BVOp("bvadd", off, b.BVOp("bvadd", ln, b.BV(j, 64))))
				fr.cx.store(fr.st, dst, el, v)
			}
		} else {
			fr.transformHeaps(el, base, b.BVOp("bvadd", off, ln), n, w.sbase(t.t), w.soff(t.t))
		}
	}
	return Val{t: b.Name("app", res), typ: c.Args[0].Type()}
}

func (fr *Frame) copySlice(c *ssa.CallCommon, args []Val, p token.Pos) Val {
	b, w := fr.b(), fr.w()
	dst, src := args[0], args[1]
	intT := types.Typ[types.Int]
	dt, ok := c.Args[0].Type().Underlying().(*types.Slice)
	if _, isSlice := c.Args[1].Type().Underlying().(*types.Slice); !ok || !isSlice {
		fr.cx.trust("copy from string not modelled")
		v := b.Const("copied", SBV(64))
		return Val{t: v, typ: intT}
	}
	dl, sl := w.slen(dst.t), w.slen(src.t)
	n := b.Name("copyn", b.Ite(b.BVCmp("bvslt", dl, sl), dl, sl))
	fr.transformHeaps(dt.Elem(), w.sbase(dst.t), w.soff(dst.t), n, w.sbase(src.t), w.soff(src.t))
	return Val{t: n, typ: intT}
}

// typeFrameAfterCall: after a `modifies everything` call into an imported package, the fields of
// struct types declared in the package under verification keep their values.
func (fr *Frame) typeFrameAfterCall(bc *BoundContract, old *State) {
	top := fr.cx.bc
	if top == nil || top.C.PkgPath == bc.C.PkgPath {
		return
	}
	all := false
	for _, mc := range bc.C.Modifies {
		for _, x := range mc.Exprs {
			if id, ok := x.(*ast.Ident); ok && id.Name == "everything" {
				all = true
			}
		}
	}
	if !all {
		return
	}
	eng := fr.eng()
	tp := eng.typesPackage(top.C.PkgPath)
	cp := eng.typesPackage(bc.C.PkgPath)
	if tp == nil || cp == nil || !importsTransitively(tp, cp, map[*types.Package]bool{}) {
		return
	}
	w, b := fr.w(), fr.b()
	// field ids of all struct types declared in the verified package
	var fids []int
	scope := tp.Scope()
	for _, nm := range scope.Names() {
		tn, ok := scope.Lookup(nm).(*types.TypeName)
		if !ok || !isStructType(tn.Type()) {
			continue
		}
		si := w.structInfo(tn.Type())
		for _, f := range si.Fields {
			fids = append(fids, f.FID)
		}
		for _, f := range si.Ghosts {
			fids = append(fids, f.FID)
		}
	}
	if len(fids) == 0 {
		return
	}
	sort.Ints(fids)
	for _, hn := range sortedKeys(w.heapSort) {
		if arrayKeySort(w.heapSort[hn]) != SLoc {
			continue
		}
		hc, ho := fr.st.heap(fr.cx, hn), old.heap(fr.cx, hn)
		if def(hc) == def(ho) {
			continue
		}
		ln := fmt.Sprintf("l?%d", fr.cx.nextBound())
		l := b.BVar(ln, SLoc)
		setName := "fidsOf_" + sanitize(tp.Name())
		w.fidSets[setName] = fids
		in := b.And(b.mk("(_ is Fld)", SBool, l), b.mk(setName, SBool, b.App("fid", SInt, l)))
		fr.assume(b.Forall([]BoundVar{{ln, SLoc}}, b.Implies(in, b.Eq(b.Select(hc, l), b.Select(ho, l))), b.Select(hc, l)))
	}
	// ground instances for the objects the contract under verification talks about: the parameters of
	// top-package struct type and the top-package objects their fields point to (two levels)
	isTop := func(t types.Type) bool {
		n, ok := t.(*types.Named)
		return ok && n.Obj().Pkg() == tp && isStructType(t)
	}
	var ground func(ptr *Term, t types.Type, depth int)
	seenObj := map[int]bool{}
	ground = func(ptr *Term, t types.Type, depth int) {
		if seenObj[def(ptr).id] || !fr.cx.enumerable(t) {
			return
		}
		seenObj[def(ptr).id] = true
		fr.cx.leaves(ptr, t, func(loc *Term, lt types.Type) {
			hn := w.heapName(w.sortOf(lt))
			hc, ho := fr.st.heap(fr.cx, hn), old.heap(fr.cx, hn)
			if def(hc) != def(ho) && locCtor(def(loc)) == "Fld" {
				fr.assume(b.Eq(b.Select(hc, loc), b.Select(ho, loc)))
			}
			if pt, ok := lt.Underlying().(*types.Pointer); ok && depth < 2 && isTop(pt.Elem()) {
				ground(b.Select(ho, loc), pt.Elem(), depth+1)
			}
		})
	}
	var pnames []string
	for k := range fr.cx.topVars {
		pnames = append(pnames, k)
	}
	sort.Strings(pnames)
	for _, k := range pnames {
		v := fr.cx.topVars[k]
		if v.t == nil || v.typ == nil {
			continue
		}
		if pt, ok := v.typ.Underlying().(*types.Pointer); ok && isTop(pt.Elem()) {
			ground(v.t, pt.Elem(), 0)
		}
	}
	// ghost variables declared by the contracts of the verified package
	for i, g := range eng.cs.GhostVars {
		if g.PkgPath != top.C.PkgPath {
			continue
		}
		gv := eng.ghostVar(g.Field)
		if gv == nil {
			continue
		}
		_ = i
		loc := b.Glob(1000000 + gv.id)
		fr.assume(b.Eq(fr.cx.load(fr.st, loc, gv.typ), fr.cx.load(old, loc, gv.typ)))
	}
	fr.cx.trust(fmt.Sprintf("type-based frame: %s (package %s) does not write fields of struct types declared in package %s, which it cannot name (no unsafe/reflect aliasing)", bc.Short(), cp.Name(), tp.Name()))
}

func importsTransitively(from, to *types.Package, seen map[*types.Package]bool) bool {
	if seen[from] {
		return false
	}
	seen[from] = true
	for _, imp := range from.Imports() {
		if imp == to || importsTransitively(imp, to, seen) {
			return true
		}
	}
	return false
}

// foreignResultTypes: an interface value returned by a callee from an imported package does not
// have a dynamic type declared in the package under verification (the callee cannot name it).
func (fr *Frame) foreignResultTypes(bc *BoundContract, res []Val) {
	top := fr.cx.bc
	if top == nil || top.C.PkgPath == bc.C.PkgPath || bc.C.Kind == "interface" {
		return
	}
	eng := fr.eng()
	tp := eng.typesPackage(top.C.PkgPath)
	cp := eng.typesPackage(bc.C.PkgPath)
	if tp == nil || cp == nil || !importsTransitively(tp, cp, map[*types.Package]bool{}) {
		return
	}
	w, b := fr.w(), fr.b()
	var ids []int
	scope := tp.Scope()
	for _, nm := range scope.Names() {
		tn, ok := scope.Lookup(nm).(*types.TypeName)
		if !ok || tn.IsAlias() {
			continue
		}
		if _, isIface := tn.Type().Underlying().(*types.Interface); isIface {
			continue
		}
		ids = append(ids, w.typeID(tn.Type()), w.typeID(types.NewPointer(tn.Type())))
	}
	used := false
	for _, r := range res {
		if r.t == nil || r.t.sort != SIface {
			continue
		}
		var cs []*Term
		for _, id := range ids {
			cs = append(cs, b.Neq(w.itype(r.t), b.Int(int64(id))))
		}
		fr.assume(b.And(cs...))
		used = true
	}
	if used {
		fr.cx.trust(fmt.Sprintf("type-based: interface values returned by %s (package %s) do not have a dynamic type declared in package %s", bc.Short(), cp.Name(), tp.Name()))
	}
}
