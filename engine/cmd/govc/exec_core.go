package main

import (
	"fmt"
	"go/constant"
	"go/types"
	"sort"
	"strings"

	"golang.org/x/tools/go/ssa"
)

// Val is a symbolic value.
type Val struct {
	t     *Term
	typ   types.Type
	konst constant.Value // untyped constant (spec expressions)
	isNil bool           // untyped nil (spec expressions)
	loc   *Term          // address this value was read from (spec expressions)
	tuple []Val
	fn    *FuncVal
	iter  *MapIter
	isAddr bool // t is the address of a local variable: its value is read from the current state
}

type FuncVal struct {
	fn       *ssa.Function
	bindings []Val
	param    *FnParamSpec // function-typed parameter with a spec
	paramEnv func(args []Val, cur, old *State) *SpecEnv
}

type MapIter struct {
	m   Val
	mt  *types.Map
	vis *Term // location of the ghost cell holding the set of keys already produced
	visHeap string
	cnt     *Term // location of the ghost cell counting the keys produced so far
	len0    *Term // length of the map when the iteration started
}

// State maps heap names to their current array term.
type State struct {
	heaps map[string]*Term
}

func newState() *State { return &State{heaps: map[string]*Term{}} }

func (s *State) clone() *State {
	n := newState()
	for k, v := range s.heaps {
		n.heaps[k] = v
	}
	return n
}

func (s *State) heap(cx *Ctx, name string) *Term {
	if h, ok := s.heaps[name]; ok {
		return h
	}
	return cx.initHeap(name)
}

func (s *State) set(name string, t *Term) { s.heaps[name] = t }

type assumeRec struct {
	mark int
	t    *Term
	blk  *ssa.BasicBlock // block of the verified function that was being executed (nil: before/after the body)
}

type Obligation struct {
	Name    string
	Kind    string
	Label   string
	Func    string
	Props   []string
	Pos     string
	Clause  string
	mark    int
	nAssume int
	reach   *Term
	goal    *Term
	cx      *Ctx
	Trivial bool
	Bounded string
	// results
	Status  string // discharged, sat, unknown, error
	Solver  string
	TimeS   float64
	Model   string
	Output  string
	IsCover bool
	FullCover bool // vacuity sentinel: all hypotheses kept; any "unsat" means the point is unreachable in the model
	relaxed bool
	refute  *Term
	parts   []*Term // conjuncts of the goal that may be discharged separately (one per return path)
	blk     *ssa.BasicBlock   // block of the verified function in which the obligation arises (nil: after the body)
	partBlk []*ssa.BasicBlock // return block of each part: hypotheses recorded in blocks that cannot reach it are left out of that part's query
	partIdx int     // >0: query only parts[partIdx-1]
	Relaxed bool // counterexample found only after dropping quantified hypotheses
}

var explainMode bool

// Ctx is the verification context of one top-level function.
type Ctx struct {
	eng       *Engine
	w         *World
	fn        *ssa.Function
	bc        *BoundContract
	assumes   []assumeRec
	obls      []*Obligation
	newN      int
	boundN    int
	h0        map[string]*Term
	undecided []string
	trusted   map[string]bool
	names     map[string]int
	stack     []*ssa.Function
	axiomsFor map[string]bool // heaps needing fresh-object zero axioms
	bounded   string
	skolemN   int
	funcCells map[int]*FuncVal
	nameBase  string
	h0pos     map[string]int
	splits    [][]*Term // each entry: exhaustive list of case hypotheses
	curBlk    *ssa.BasicBlock // block of the verified function being executed
	topVars   map[string]Val // named parameters of the function under verification
	pow2Lo, pow2Hi int  // exponent range of the function's `split ... pow2` directive (0,0: none)
	trivialSafety int
	witness   []witnessTerm
	dynAlloc  bool               // objects other than plain locals were allocated (make, append, map, boxes)
	escaped   map[int]bool       // allocation ids whose address may be known outside the verified function
	allocType map[int]types.Type // allocation id -> allocated type (objects created by Alloc)
}

// noteEscape records that the object a value points into may be reachable by callees.
func (cx *Ctx) noteEscape(v *Term) {
	if v == nil {
		return
	}
	var l *Term
	switch v.sort {
	case SLoc:
		l = v
	case SSlice:
		l = cx.w.sbase(v)
	case SIface:
		l = cx.w.iptr(v)
	default:
		return
	}
	for depth := 0; depth < 12; depth++ {
		d := def(l)
		switch locCtor(d) {
		case "New":
			var k int
			fmt.Sscan(d.args[0].op, &k)
			if cx.escaped == nil {
				cx.escaped = map[int]bool{}
			}
			cx.escaped[k] = true
			return
		case "Fld", "Elem":
			l = d.args[0]
		default:
			if d.op == "ite" && len(d.args) == 3 {
				cx.noteEscape(d.args[1])
				cx.noteEscape(d.args[2])
			}
			return
		}
	}
}

// leaves enumerates the leaf cells of an enumerable type.
func (cx *Ctx) leaves(loc *Term, t types.Type, fn func(loc *Term, t types.Type)) {
	b, w := cx.w.b, cx.w
	if ov, ok := overlayOf(t); ok {
		cx.leaves(b.Elem(loc, b.BV(0, 64)), ov, fn)
		return
	}
	if isLeafType(t) {
		fn(loc, t)
		return
	}
	switch u := t.Underlying().(type) {
	case *types.Struct:
		si := w.structInfo(t)
		for _, f := range si.Fields {
			cx.leaves(b.Fld(loc, f.FID), f.Type, fn)
		}
		for _, f := range si.Ghosts {
			cx.leaves(b.Fld(loc, f.FID), f.Type, fn)
		}
	case *types.Array:
		for i := int64(0); i < u.Len(); i++ {
			cx.leaves(b.Elem(loc, b.BV(uint64(i), 64)), u.Elem(), fn)
		}
	}
}

type witnessTerm struct {
	text string
	t    *Term
	mark int
}

func (cx *Ctx) base() string {
	if cx.nameBase != "" {
		return cx.nameBase
	}
	return cx.fn.String()
}

func (cx *Ctx) nextBound() int { cx.boundN++; return cx.boundN }

func (cx *Ctx) initHeap(name string) *Term {
	if h, ok := cx.h0[name]; ok {
		return h
	}
	srt, ok := cx.w.heapSort[name]
	if !ok {
		panic("unknown heap " + name)
	}
	if cx.h0pos == nil {
		cx.h0pos = map[string]int{}
	}
	cx.h0pos[name] = cx.w.b.Mark()
	h := cx.w.b.Const("H0_"+name, srt)
	cx.h0[name] = h
	return h
}

func (cx *Ctx) assume(t *Term) {
	if isTrue(t) {
		return
	}
	cx.assumes = append(cx.assumes, assumeRec{mark: cx.w.b.Mark(), t: t, blk: cx.curBlk})
}

func (cx *Ctx) undecide(format string, args ...interface{}) {
	msg := fmt.Sprintf(format, args...)
	for _, u := range cx.undecided {
		if u == msg {
			return
		}
	}
	cx.undecided = append(cx.undecided, msg)
}

func (cx *Ctx) trust(what string) {
	cx.trusted[what] = true
}

func (cx *Ctx) intConst(c constant.Value, typ types.Type) *Term {
	bits := 64
	if bt, ok := typ.Underlying().(*types.Basic); ok {
		bits = intBits(bt)
	}
	c = constant.ToInt(c)
	if u, ok := constant.Uint64Val(c); ok {
		return cx.w.b.BV(u, bits)
	}
	if i, ok := constant.Int64Val(c); ok {
		return cx.w.b.BV(uint64(i), bits)
	}
	panic(fmt.Sprintf("integer constant %v out of range", c))
}

// ---------- memory ----------

const smallArray = 16

// load reads a value of Go type t stored at loc.
func (cx *Ctx) load(st *State, loc *Term, t types.Type) *Term {
	w, b := cx.w, cx.w.b
	if ov, ok := overlayOf(t); ok {
		return cx.load(st, b.Elem(loc, b.BV(0, 64)), ov)
	}
	if isPageSet(t) {
		return b.Select(st.heap(cx, w.heapName(w.sortOf(t))), loc)
	}
	if _, ok := opaqueLE(t); ok {
		return b.Select(st.heap(cx, w.heapName(w.sortOf(t))), loc)
	}
	switch u := t.Underlying().(type) {
	case *types.Struct:
		si := w.structInfo(t)
		args := make([]*Term, len(si.Fields))
		for i, f := range si.Fields {
			args[i] = cx.load(st, b.Fld(loc, f.FID), f.Type)
		}
		return w.mkStruct(si, args)
	case *types.Array:
		s := w.sortOf(t)
		if u.Len() <= smallArray {
			arr := b.ConstArray(s, w.zero(u.Elem()))
			for i := int64(0); i < u.Len(); i++ {
				idx := b.BV(uint64(i), 64)
				arr = b.Store(arr, idx, cx.load(st, b.Elem(loc, idx), u.Elem()))
			}
			return arr
		}
		// large array value: fresh array constrained pointwise (leaf elements only)
		arr := b.Const("arrval", s)
		if isLeafType(u.Elem()) {
			i := b.BVar(fmt.Sprintf("ai?%d", cx.nextBound()), SBV(64))
			body := b.Eq(b.Select(arr, i), cx.load(st, b.Elem(loc, i), u.Elem()))
			cx.assume(b.Forall([]BoundVar{{strings.Trim(i.op, "|"), SBV(64)}}, body, b.Select(arr, i)))
		} else {
			cx.trust("large array value of structs loaded imprecisely (contents arbitrary)")
		}
		return arr
	case *types.Tuple:
		panic("load of tuple")
	}
	return b.Select(st.heap(cx, w.heapName(w.sortOf(t))), loc)
}

func isLeafType(t types.Type) bool {
	if isPageSet(t) {
		return true
	}
	if _, ok := opaqueLE(t); ok {
		return true
	}
	if _, ok := overlayOf(t); ok {
		return false
	}
	switch t.Underlying().(type) {
	case *types.Struct, *types.Array:
		return false
	}
	return true
}

// store writes v (of Go type t) at loc, under guard g (nil = unconditional).
func (cx *Ctx) store(st *State, loc *Term, t types.Type, v *Term) {
	w, b := cx.w, cx.w.b
	if ov, ok := overlayOf(t); ok {
		cx.store(st, b.Elem(loc, b.BV(0, 64)), ov, v)
		return
	}
	if isPageSet(t) {
		hn := w.heapName(w.sortOf(t))
		st.set(hn, b.Name(hn, b.Store(st.heap(cx, hn), loc, v)))
		return
	}
	if _, ok := opaqueLE(t); !ok {
		switch u := t.Underlying().(type) {
		case *types.Struct:
			si := w.structInfo(t)
			for i, f := range si.Fields {
				cx.store(st, b.Fld(loc, f.FID), f.Type, w.structField(si, v, i))
			}
			return
		case *types.Array:
			if u.Len() <= smallArray {
				for i := int64(0); i < u.Len(); i++ {
					idx := b.BV(uint64(i), 64)
					cx.store(st, b.Elem(loc, idx), u.Elem(), b.Select(v, idx))
				}
				return
			}
			cx.havocLoc(st, ModLoc{loc: loc, typ: t, text: "large array store"})
			if isLeafType(u.Elem()) {
				hn := w.heapName(w.sortOf(u.Elem()))
				i := b.BVar(fmt.Sprintf("ai?%d", cx.nextBound()), SBV(64))
				n := b.BV(uint64(u.Len()), 64)
				sel := b.Select(st.heap(cx, hn), b.Elem(loc, i))
				body := b.Implies(b.BVCmp("bvult", i, n), b.Eq(sel, b.Select(v, i)))
				cx.assume(b.Forall([]BoundVar{{strings.Trim(i.op, "|"), SBV(64)}}, body, sel))
			}
			return
		}
	}
	hn := w.heapName(w.sortOf(t))
	h := st.heap(cx, hn)
	if v.sort != arrayValSort(h.sort) {
		panic(fmt.Sprintf("store: value sort %s into heap %s (type %s)", v.sort, hn, t))
	}
	st.set(hn, b.Name(hn, b.Store(h, loc, v)))
}

// inside builds the predicate "l is a leaf location of sort `sort` inside an
// object of type typ whose address satisfies root".
func (cx *Ctx) inside(l *Term, typ types.Type, srt Sort, root func(x *Term) *Term) *Term {
	w, b := cx.w, cx.w.b
	if ov, ok := overlayOf(typ); ok {
		return cx.inside(l, ov, srt, func(x *Term) *Term {
			return b.And(b.mk("(_ is Elem)", SBool, x), b.Eq(b.App("eidx", SBV(64), x), b.BV(0, 64)), root(b.App("ebase", SLoc, x)))
		})
	}
	if isLeafType(typ) {
		if w.sortOf(typ) == srt {
			return root(l)
		}
		return b.False()
	}
	switch u := typ.Underlying().(type) {
	case *types.Struct:
		si := w.structInfo(typ)
		var ds []*Term
		all := append(append([]FieldInfo{}, si.Fields...), si.Ghosts...)
		for _, f := range all {
			f := f
			ds = append(ds, cx.inside(l, f.Type, srt, func(x *Term) *Term {
				return b.And(b.mk("(_ is Fld)", SBool, x), b.Eq(b.App("fid", SInt, x), b.Int(int64(f.FID))), root(b.App("fbase", SLoc, x)))
			}))
		}
		return b.Or(ds...)
	case *types.Array:
		return cx.inside(l, u.Elem(), srt, func(x *Term) *Term {
			return b.And(b.mk("(_ is Elem)", SBool, x), root(b.App("ebase", SLoc, x)))
		})
	}
	return b.False()
}

// leafSorts lists the leaf sorts occurring in typ.
func (cx *Ctx) leafSorts(typ types.Type, out map[Sort]bool) {
	w := cx.w
	if ov, ok := overlayOf(typ); ok {
		cx.leafSorts(ov, out)
		return
	}
	if isLeafType(typ) {
		out[w.sortOf(typ)] = true
		return
	}
	switch u := typ.Underlying().(type) {
	case *types.Struct:
		si := w.structInfo(typ)
		for _, f := range si.Fields {
			cx.leafSorts(f.Type, out)
		}
		for _, f := range si.Ghosts {
			cx.leafSorts(f.Type, out)
		}
	case *types.Array:
		cx.leafSorts(u.Elem(), out)
	}
}

// inMod: l (a location in the heap of leaf sort srt) is covered by the modifies entry m.
func (cx *Ctx) inMod(l *Term, srt Sort, m ModLoc) *Term {
	b := cx.w.b
	switch {
	case m.all:
		return b.True()
	case m.allOf != nil && len(m.path) > 0:
		root := func(x *Term) *Term { return b.True() }
		ft := m.allOf
		for _, nm := range m.path {
			si := cx.w.structInfo(ft)
			for _, f := range append(append([]FieldInfo{}, si.Fields...), si.Ghosts...) {
				if f.Name == nm {
					prev, fid := root, f.FID
					root = func(x *Term) *Term {
						return b.And(b.mk("(_ is Fld)", SBool, x), b.Eq(b.App("fid", SInt, x), b.Int(int64(fid))), prev(b.App("fbase", SLoc, x)))
					}
					ft = f.Type
					break
				}
			}
		}
		return cx.inside(l, ft, srt, root)
	case m.allOf != nil:
		if isLeafType(m.allOf) {
			if cx.w.sortOf(m.allOf) == srt {
				return b.True()
			}
			return b.False()
		}
		return cx.inside(l, m.allOf, srt, func(x *Term) *Term { return b.True() })
	case m.loc != nil:
		return cx.inside(l, m.typ, srt, func(x *Term) *Term { return b.Eq(x, m.loc) })
	case m.elems != nil:
		if isByteType(m.typ) {
			// raw memory: the bytes themselves and every struct view laid over them
			if _, ok := srt.IsBV(); !ok {
				return b.False()
			}
			under := func(x *Term) *Term {
				return b.And(b.mk("(_ is Elem)", SBool, x), b.Eq(b.App("ebase", SLoc, x), m.elems))
			}
			fb := b.App("fbase", SLoc, l)
			fbb := b.App("fbase", SLoc, fb)
			views := b.Or(
				b.And(b.mk("(_ is Fld)", SBool, l), under(fb)),
				b.And(b.mk("(_ is Fld)", SBool, l), b.mk("(_ is Fld)", SBool, fb), under(fbb)))
			return b.Or(under(l), views)
		}
		return cx.inside(l, m.typ, srt, func(x *Term) *Term {
			return b.And(b.mk("(_ is Elem)", SBool, x), b.Eq(b.App("ebase", SLoc, x), m.elems))
		})
	}
	return b.False()
}

func isByteType(t types.Type) bool {
	bt, ok := t.Underlying().(*types.Basic)
	return ok && (bt.Kind() == types.Uint8 || bt.Kind() == types.Int8)
}

// havocLoc makes the contents of a modifies entry arbitrary.
func (cx *Ctx) havocLoc(st *State, m ModLoc) {
	w, b := cx.w, cx.w.b
	if m.all {
		for _, s := range []Sort{SBool, SBV(8), SBV(16), SBV(32), SBV(64), SInt, SLoc, SSlice, SIface} {
			w.heapName(s)
		}
		old := st.clone()
		for _, hn := range sortedKeys(w.heapSort) {
			st.set(hn, b.Const("hvall_"+hn, w.heapSort[hn]))
		}
		// local variables of the verified function whose address never left it are out of reach
		var ks []int
		for k := range cx.allocType {
			if !cx.escaped[k] {
				ks = append(ks, k)
			}
		}
		sort.Ints(ks)
		for _, k := range ks {
			t := cx.allocType[k]
			if !cx.enumerable(t) {
				continue
			}
			cx.leaves(b.NewObj(k), t, func(loc *Term, lt types.Type) {
				hn := w.heapName(w.sortOf(lt))
				st.set(hn, b.Store(st.heap(cx, hn), loc, b.Select(old.heap(cx, hn), loc)))
			})
		}
		return
	}
	if m.mapp != nil {
		valH, domH, lnH := w.mapHeapNames(m.mtyp)
		for _, hn := range []string{valH, domH, lnH} {
			h := st.heap(cx, hn)
			st.set(hn, b.Name(hn, b.Store(h, m.mapp, b.Const("hv_"+hn, arrayValSort(h.sort)))))
		}
		// a length is non-negative
		cx.assume(b.BVCmp("bvsge", b.Select(st.heap(cx, lnH), m.mapp), b.BV(0, 64)))
		return
	}
	if m.loc != nil && cx.enumerable(m.typ) {
		cx.havocEnum(st, m.loc, m.typ)
		return
	}
	// quantified havoc for every leaf sort involved
	sorts := map[Sort]bool{}
	cx.leafSorts(m.typ, sorts)
	if m.elems != nil && isByteType(m.typ) {
		for _, n := range []int{8, 16, 32, 64} {
			sorts[SBV(n)] = true
		}
	}
	var names []string
	for s := range sorts {
		names = append(names, string(s))
	}
	sort.Strings(names)
	for _, sn := range names {
		s := Sort(sn)
		hn := w.heapName(s)
		h := st.heap(cx, hn)
		nh := b.Const("hv_"+hn, h.sort)
		l := b.BVar(fmt.Sprintf("l?%d", cx.nextBound()), SLoc)
		body := b.Or(cx.inMod(l, s, m), b.Eq(b.Select(nh, l), b.Select(h, l)))
		cx.assume(b.Forall([]BoundVar{{strings.Trim(l.op, "|"), SLoc}}, body, b.Select(nh, l)))
		st.set(hn, nh)
	}
}

func (cx *Ctx) enumerable(t types.Type) bool {
	if isLeafType(t) {
		return true
	}
	if ov, ok := overlayOf(t); ok {
		return cx.enumerable(ov)
	}
	switch u := t.Underlying().(type) {
	case *types.Struct:
		si := cx.w.structInfo(t)
		for _, f := range si.Fields {
			if !cx.enumerable(f.Type) {
				return false
			}
		}
		return true
	case *types.Array:
		return u.Len() <= smallArray && cx.enumerable(u.Elem())
	}
	return false
}

func (cx *Ctx) havocEnum(st *State, loc *Term, t types.Type) {
	w, b := cx.w, cx.w.b
	if ov, ok := overlayOf(t); ok {
		cx.havocEnum(st, b.Elem(loc, b.BV(0, 64)), ov)
		return
	}
	if isLeafType(t) {
		s := w.sortOf(t)
		v := b.Const("hv", s)
		cx.store(st, loc, t, v)
		cx.assume(cx.typeInv(v, t))
		cx.assume(cx.notFuture(v))
		return
	}
	switch u := t.Underlying().(type) {
	case *types.Struct:
		si := w.structInfo(t)
		for _, f := range si.Fields {
			cx.havocEnum(st, b.Fld(loc, f.FID), f.Type)
		}
		for _, f := range si.Ghosts {
			cx.havocEnum(st, b.Fld(loc, f.FID), f.Type)
		}
	case *types.Array:
		for i := int64(0); i < u.Len(); i++ {
			cx.havocEnum(st, b.Elem(loc, b.BV(uint64(i), 64)), u.Elem())
		}
	}
}

// notFuture: a value obtained now cannot point into objects allocated later
// (allocation ids are handed out in increasing order).
func (cx *Ctx) notFuture(v *Term) *Term {
	b, w := cx.w.b, cx.w
	var l *Term
	switch v.sort {
	case SLoc:
		l = v
	case SSlice:
		l = w.sbase(v)
	case SIface:
		l = w.iptr(v)
	default:
		return b.True()
	}
	if c := locCtor(def(l)); c != "" && c != "Fld" && c != "Elem" {
		return b.True()
	}
	return b.mk("<=", SBool, b.mk("newId6", SInt, l), b.Int(int64(cx.newN)))
}

// typeInv returns the invariant every value of Go type t satisfies.
func (cx *Ctx) typeInv(v *Term, t types.Type) *Term {
	w, b := cx.w, cx.w.b
	if isPageSet(t) {
		return b.True()
	}
	if _, ok := opaqueLE(t); ok {
		return b.True()
	}
	if ov, ok := overlayOf(t); ok {
		return cx.typeInv(v, ov)
	}
	switch u := t.Underlying().(type) {
	case *types.Slice:
		z := b.BV(0, 64)
		return b.And(
			b.BVCmp("bvsge", w.slen(v), z),
			b.BVCmp("bvsle", w.slen(v), w.scap(v)),
			b.BVCmp("bvsge", w.soff(v), z),
			// offsets and capacities stay far from wrap-around
			b.BVCmp("bvslt", w.scap(v), b.BV(1<<62, 64)),
			b.BVCmp("bvslt", w.soff(v), b.BV(1<<62, 64)),
			b.Implies(b.IsNil(w.sbase(v)), b.And(b.Eq(w.scap(v), z), b.Eq(w.soff(v), z))),
		)
	case *types.Struct:
		si := w.structInfo(t)
		var cs []*Term
		for i, f := range si.Fields {
			cs = append(cs, cx.typeInv(w.structField(si, v, i), f.Type))
		}
		return b.And(cs...)
	case *types.Interface:
		return b.mk(">=", SBool, w.itype(v), b.Int(0))
	case *types.Signature:
		return b.mk(">=", SBool, v, b.Int(0))
	case *types.Basic:
		if u.Info()&types.IsString != 0 {
			return b.mk(">=", SBool, v, b.Int(0))
		}
	}
	return b.True()
}

// ---------- boxing ----------

func (cx *Ctx) box(v Val) *Term {
	w, b := cx.w, cx.w.b
	if v.t.sort == SIface {
		return v.t
	}
	tid := b.Int(int64(w.typeID(v.typ)))
	switch {
	case v.t.sort == SLoc:
		return w.mkIface(tid, v.t, b.BV(0, 64))
	case v.t.sort == SBool:
		return w.mkIface(tid, b.Nil(), b.Ite(v.t, b.BV(1, 64), b.BV(0, 64)))
	default:
		if _, ok := v.t.sort.IsBV(); ok {
			return w.mkIface(tid, b.Nil(), b.Resize(v.t, 64, isSigned(v.typ)))
		}
	}
	// strings, structs, slices, funcs: payload abstracted
	return w.mkIface(tid, b.Nil(), b.Const("boxed", SBV(64)))
}

// unboxSt is unbox with access to the heap (boxed slices live in a box object).
func (cx *Ctx) unboxSt(st *State, i *Term, t types.Type) Val {
	if cx.w.sortOf(t) == SSlice && st != nil {
		return Val{t: cx.load(st, cx.w.iptr(i), t), typ: t}
	}
	return cx.unbox(i, t)
}

func (cx *Ctx) unbox(i *Term, t types.Type) Val {
	w, b := cx.w, cx.w.b
	s := w.sortOf(t)
	switch {
	case s == SIface:
		return Val{t: i, typ: t}
	case s == SLoc:
		return Val{t: w.iptr(i), typ: t}
	case s == SBool:
		return Val{t: b.Neq(w.inum(i), b.BV(0, 64)), typ: t}
	default:
		if n, ok := s.IsBV(); ok {
			return Val{t: b.Resize(w.inum(i), n, false), typ: t}
		}
	}
	return Val{t: b.Const("unboxed", s), typ: t}
}

func (cx *Ctx) sameHeaps(a, c *State) *Term {
	b := cx.w.b
	names := map[string]bool{}
	for k := range a.heaps {
		names[k] = true
	}
	for k := range c.heaps {
		names[k] = true
	}
	var cs []*Term
	for _, k := range sortedKeys(names) {
		cs = append(cs, b.Eq(a.heap(cx, k), c.heap(cx, k)))
	}
	return b.And(cs...)
}

func (cx *Ctx) preserved(cur, old *State) *Term {
	b, w := cx.w.b, cx.w
	var cs []*Term
	for _, hn := range sortedKeys(w.heapSort) {
		hc, ho := cur.heap(cx, hn), old.heap(cx, hn)
		if def(hc) == def(ho) {
			continue
		}
		nm := fmt.Sprintf("l?%d", cx.nextBound())
		l := b.BVar(nm, SLoc)
		ex := []*Term{cx.rootIsNew(l)}
		if len(w.exemptFID) > 0 {
			var ids []*Term
			for fid := range w.exemptFID {
				ids = append(ids, b.Eq(b.App("fid", SInt, l), b.Int(int64(fid))))
			}
			sort.Slice(ids, func(i, j int) bool { return ids[i].id < ids[j].id })
			ex = append(ex, b.And(b.mk("(_ is Fld)", SBool, l), b.Or(ids...)))
		}
		ex = append(ex, b.Eq(b.Select(hc, l), b.Select(ho, l)))
		cs = append(cs, b.Forall([]BoundVar{{nm, SLoc}}, b.Or(ex...)))
	}
	return b.And(cs...)
}

// setComprehension returns a set s of page ids with s[p] <=> body(p), introduced
// by a definitional axiom (pattern: membership in s).
func (cx *Ctx) setComprehension(body func(p *Term) *Term) *Term {
	b := cx.w.b
	s := b.Const("set", SArray(SBV(64), SBool))
	pn := fmt.Sprintf("p?%d", cx.nextBound())
	p := b.BVar(pn, SBV(64))
	cx.assume(b.Forall([]BoundVar{{pn, SBV(64)}}, b.Eq(b.Select(s, p), body(p)), b.Select(s, p)))
	return s
}

func (cx *Ctx) isFreshLoc(v Val) *Term {
	b := cx.w.b
	l := v.t
	if v.t.sort == SSlice {
		l = cx.w.sbase(v.t)
	}
	return b.mk("(_ is New)", SBool, l)
}

// rootIsNew: bounded-depth check that a location lies inside an object allocated
// during the function (conservative: deeper paths count as not-new).
func (cx *Ctx) rootIsNew(l *Term) *Term {
	return cx.w.b.mk("rootIsNew6", SBool, l)
}

// ---------- obligations ----------

func (cx *Ctx) newObligation(kind, label, clause, pos string, reach, goal *Term, props []string) *Obligation {
	base := fmt.Sprintf("%s/%s[%s]", cx.base(), kind, label)
	cx.names[base]++
	name := base
	if n := cx.names[base]; n > 1 {
		name = fmt.Sprintf("%s#%d", base, n)
	}
	o := &Obligation{Name: name, Kind: kind, Label: label, Func: cx.base(), Props: props, Pos: pos, Clause: clause,
		mark: cx.w.b.Mark(), nAssume: len(cx.assumes), reach: reach, goal: goal, cx: cx, Bounded: cx.bounded, blk: cx.curBlk}
	if isTrue(goal) || isFalse(reach) {
		o.Trivial = true
	}
	cx.obls = append(cx.obls, o)
	return o
}

func hasQuantifier(t *Term, seen map[int]bool) bool {
	if seen[t.id] {
		return false
	}
	seen[t.id] = true
	if strings.HasPrefix(t.op, "forall ") || strings.HasPrefix(t.op, "exists ") || strings.HasPrefix(t.op, "\x00") {
		return true
	}
	for _, a := range t.args {
		if hasQuantifier(a, seen) {
			return true
		}
	}
	return false
}

// conjuncts lists the leaf conjuncts of the goal (through =>, and, named terms).
func (o *Obligation) conjuncts() []*Term {
	var out []*Term
	var rec func(t *Term, depth int)
	rec = func(t *Term, depth int) {
		d := def(t)
		switch {
		case d.op == "and" && depth < 6:
			for _, a := range d.args {
				rec(a, depth+1)
			}
		case d.op == "=>" && len(d.args) == 2 && depth < 6:
			out = append(out, d.args[0])
			rec(d.args[1], depth+1)
		default:
			out = append(out, t)
		}
	}
	rec(o.goal, 0)
	if len(out) > 40 {
		out = out[:40]
	}
	return out
}

// Query renders the SMT-LIB text of an obligation (negated goal).
func (o *Obligation) Query(getModel bool) string { return o.QueryCase(getModel, nil) }

// refutations lists formulas each of which implies the negation of the goal,
// obtained by splitting conjunctions under implications.
func (o *Obligation) refutations() []*Term {
	b := o.cx.w.b
	var rec func(t *Term, depth int) []*Term
	rec = func(t *Term, depth int) []*Term {
		d := def(t)
		switch {
		case d.op == "and" && depth < 6:
			var out []*Term
			for _, a := range d.args {
				out = append(out, rec(a, depth+1)...)
			}
			return out
		case d.op == "=>" && len(d.args) == 2 && depth < 6:
			var out []*Term
			for _, r := range rec(d.args[1], depth+1) {
				out = append(out, b.And(d.args[0], r))
			}
			return out
		}
		return []*Term{b.Not(t)}
	}
	rs := rec(o.goal, 0)
	// quantifier-free candidates first
	var qf, q []*Term
	for _, r := range rs {
		if hasQuantifier(r, map[int]bool{}) {
			q = append(q, r)
		} else {
			qf = append(qf, r)
		}
	}
	return append(qf, q...)
}

// QueryRelaxed drops the quantified hypotheses: a model of it is only a
// candidate counterexample (it must be confirmed by replay on the real code).
// QueryPart renders the query for one conjunct of the goal.
func (o *Obligation) QueryPart(k int) string {
	o.cx.w.mu.Lock()
	defer o.cx.w.mu.Unlock()
	o.partIdx = k + 1
	defer func() { o.partIdx = 0 }()
	return o.queryLocked(true, nil)
}

func (o *Obligation) QueryRelaxed(refutation *Term) string {
	o.cx.w.mu.Lock()
	defer o.cx.w.mu.Unlock()
	o.relaxed = true
	o.refute = refutation
	defer func() { o.relaxed = false; o.refute = nil }()
	return o.queryLocked(true, nil)
}

func (o *Obligation) QueryCase(getModel bool, hyp *Term) string {
	cx := o.cx
	cx.w.mu.Lock()
	defer cx.w.mu.Unlock()
	return o.queryLocked(getModel, hyp)
}

func (o *Obligation) queryLocked(getModel bool, hyp *Term) string {
	cx := o.cx
	w := cx.w
	var body strings.Builder
	di := 0
	var ancestors map[*ssa.BasicBlock]bool
	target := o.blk
	if o.partIdx > 0 && o.partIdx-1 < len(o.partBlk) && o.partBlk[o.partIdx-1] != nil {
		target = o.partBlk[o.partIdx-1]
	}
	if target != nil && !o.IsCover {
		ancestors = map[*ssa.BasicBlock]bool{}
		var up func(x *ssa.BasicBlock)
		up = func(x *ssa.BasicBlock) {
			if ancestors[x] {
				return
			}
			ancestors[x] = true
			for _, p := range x.Preds {
				up(p)
			}
		}
		up(target)
	}
	for i := 0; i < o.nAssume; i++ {
		a := cx.assumes[i]
		if a.mark > di {
			w.b.Definitions(di, a.mark, &body)
			di = a.mark
		}
		if ((o.IsCover && !o.FullCover) || o.relaxed) && hasQuantifier(a.t, map[int]bool{}) {
			continue // covers check the quantifier-free part of the hypotheses
		}
		if ancestors != nil && a.blk != nil && !ancestors[a.blk] {
			continue // recorded on a path that cannot lead to this return (dropping hypotheses is always sound)
		}
		body.WriteString("(assert ")
		a.t.write(&body)
		body.WriteString(")\n")
	}
	if o.mark > di {
		w.b.Definitions(di, o.mark, &body)
	}
	if (!o.IsCover || o.FullCover) && !o.relaxed {
		body.WriteString(cx.axioms(o.mark))
	}
	if hyp != nil {
		body.WriteString("(assert ")
		hyp.write(&body)
		body.WriteString(")\n")
	}
	body.WriteString("(assert ")
	o.reach.write(&body)
	body.WriteString(")\n")
	if o.IsCover {
		// cover: reach must be satisfiable
	} else if o.refute != nil {
		body.WriteString("(assert ")
		o.refute.write(&body)
		body.WriteString(")\n")
	} else if o.partIdx > 0 {
		body.WriteString("(assert (not ")
		o.parts[o.partIdx-1].write(&body)
		body.WriteString("))\n")
	} else {
		body.WriteString("(assert (not ")
		o.goal.write(&body)
		body.WriteString("))\n")
	}
	body.WriteString("(check-sat)\n")
	if getModel {
		var ws []string
		for _, wt := range cx.witness {
			if wt.mark <= o.mark {
				ws = append(ws, wt.t.String())
			}
		}
		if len(ws) > 0 && !o.IsCover {
			body.WriteString("(get-value (" + strings.Join(ws, " ") + "))\n")
		}
		if explainMode && !o.IsCover {
			var cs []string
			for _, c := range o.conjuncts() {
				cs = append(cs, c.String())
			}
			body.WriteString("(echo \"EXPLAIN\")\n(get-value (" + strings.Join(cs, "\n ") + "))\n(echo \"END-EXPLAIN\")\n")
		}
		body.WriteString("(get-model)\n")
	}
	var sb strings.Builder
	sb.WriteString(w.Prelude())
	sb.WriteString(body.String())
	return sb.String()
}

// axioms: zero-initialisation of objects allocated during the function, for
// the initial heaps (cells of not-yet-allocated objects may be assumed zero).
func (cx *Ctx) axioms(mark int) string {
	var sb strings.Builder
	w := cx.w
	// values stored in the initial heap do not point into objects allocated later
	if h0, ok := cx.h0["H_Loc"]; ok && cx.h0pos["H_Loc"] < mark {
		nm := quoteSym(h0.name)
		fmt.Fprintf(&sb, "(assert (forall ((l Loc)) (! (not (rootIsNew6 (select %s l))) :pattern ((select %s l)))))\n", nm, nm)
	}
	if h0, ok := cx.h0["H_Slice"]; ok && cx.h0pos["H_Slice"] < mark {
		nm := quoteSym(h0.name)
		fmt.Fprintf(&sb, "(assert (forall ((l Loc)) (! (not (rootIsNew6 (sbase (select %s l)))) :pattern ((select %s l)))))\n", nm, nm)
	}
	if h0, ok := cx.h0["H_Iface"]; ok && cx.h0pos["H_Iface"] < mark {
		nm := quoteSym(h0.name)
		fmt.Fprintf(&sb, "(assert (forall ((l Loc)) (! (not (rootIsNew6 (iptr (select %s l)))) :pattern ((select %s l)))))\n", nm, nm)
	}
	for _, hn := range sortedKeys(cx.h0) {
		if !strings.HasPrefix(hn, "M_") || cx.h0pos[hn] >= mark {
			continue
		}
		h0 := cx.h0[hn]
		inner := arrayValSort(h0.sort)
		if arrayValSort(inner) != SLoc {
			continue
		}
		nm := quoteSym(h0.name)
		fmt.Fprintf(&sb, "(assert (forall ((l Loc) (k %s)) (! (not (rootIsNew6 (select (select %s l) k))) :pattern ((select (select %s l) k)))))\n", arrayKeySort(inner), nm, nm)
	}
	for _, hn := range sortedKeys(cx.axiomsFor) {
		h0, ok := cx.h0[hn]
		if !ok || cx.h0pos[hn] >= mark {
			continue
		}
		vs := arrayValSort(h0.sort)
		z := zeroOfSort(w, vs)
		if z == "" {
			continue
		}
		nm := quoteSym(h0.name)
		fmt.Fprintf(&sb, "(assert (forall ((k Int) (i (_ BitVec 64))) (! (= (select %s (Elem (New k) i)) %s) :pattern ((select %s (Elem (New k) i))))))\n", nm, z, nm)
		fmt.Fprintf(&sb, "(assert (forall ((k Int) (i (_ BitVec 64)) (f Int)) (! (= (select %s (Fld (Elem (New k) i) f)) %s) :pattern ((select %s (Fld (Elem (New k) i) f))))))\n", nm, z, nm)
	}
	return sb.String()
}

func zeroOfSort(w *World, s Sort) string {
	switch s {
	case SBool:
		return "false"
	case SInt:
		return "0"
	case SLoc:
		return "Nil"
	case SSlice:
		return "(mk-slice Nil #x0000000000000000 #x0000000000000000 #x0000000000000000)"
	case SIface:
		return "(mk-iface 0 Nil #x0000000000000000)"
	}
	if n, ok := s.IsBV(); ok {
		return w.b.BV(0, n).op
	}
	return ""
}

// udivrem models an unsigned division / remainder by a non-constant divisor in a
// function that declares a power-of-two case split: for the divisors 2^lo..2^hi
// the result is the shift / mask, for any other divisor it is an uninterpreted
// function of the operands (an over-approximation: nothing is known about it).
// This keeps divider circuits out of the queries; the code and the contracts
// use the same expansion.
func (cx *Ctx) udivrem(rem bool, x, d *Term) *Term {
	b, w := cx.w.b, cx.w
	bits, _ := x.sort.IsBV()
	op := "bvudiv"
	if rem {
		op = "bvurem"
	}
	if cx.pow2Hi == 0 || isLit(def(d)) || bits < 32 {
		return b.BVOp(op, x, d)
	}
	nm := fmt.Sprintf("uf_%s%d", op, bits)
	w.uninterp[nm] = fmt.Sprintf("(%s %s) %s", x.sort, x.sort, x.sort)
	res := b.mk(nm, x.sort, x, d)
	hi := cx.pow2Hi
	if hi > bits-1 {
		hi = bits - 1
	}
	for k := hi; k >= cx.pow2Lo; k-- {
		var v *Term
		if rem {
			v = b.BVOp("bvand", x, b.BV(uint64(1)<<uint(k)-1, bits))
		} else {
			v = b.BVOp("bvlshr", x, b.BV(uint64(k), bits))
		}
		res = b.Ite(b.Eq(d, b.BV(uint64(1)<<uint(k), bits)), v, res)
	}
	cx.trust("unsigned division/remainder by a symbolic divisor: exact for the power-of-two divisors of the declared case split, unconstrained result otherwise")
	return res
}
