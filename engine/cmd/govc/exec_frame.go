package main

import (
	"fmt"
	"go/constant"
	"go/token"
	"go/types"
	"sort"
	"strings"

	"golang.org/x/tools/go/ssa"
)

type blockEnd struct {
	st    *State
	reach *Term
}

type deferRec struct {
	instr *ssa.Defer
	reach *Term
	args  []Val
	fnv   Val
}

type retRec struct {
	reach   *Term
	results []Val
	st      *State
	blk     *ssa.BasicBlock
	iterSt  *State         // head state of the innermost invariant loop the return sits in (nil: none)
	iterVars map[string]Val
}

type Frame struct {
	cx     *Ctx
	fn     *ssa.Function
	bc     *BoundContract
	vals   map[ssa.Value]Val
	params []Val
	free   []Val
	out    map[*ssa.BasicBlock]*blockEnd
	defers []*deferRec
	rets   []*retRec
	st     *State
	reach  *Term
	depth  int
	entry  *State // state at function entry (old)
	vars   map[string]Val
	loops  map[*ssa.BasicBlock]int // header -> ordinal
	inLoop map[*ssa.BasicBlock][]*ssa.BasicBlock
	// loop bookkeeping for back edges
	loopHead map[*ssa.BasicBlock]*loopState
	top      bool
	callN    map[string]int
	ranges    []*MapIter
	rangeOf   []*ssa.Range
	localVars map[string]Val
	allocNames map[string]bool // names of locals that live in an allocation
	paramCells map[string]Val  // parameters that live in an allocation: name -> cell
	pendingLit string          // local just declared with a nil constant (see DebugRef)
	localsOut map[*ssa.BasicBlock]map[string]Val
	edges       map[*ssa.BasicBlock][]inEdge
	pendingBack map[*ssa.BasicBlock][]inEdge
	order       []*ssa.BasicBlock
	isBack      map[[2]*ssa.BasicBlock]bool
	unrollK     map[*ssa.BasicBlock]int
	inUnrolled  map[*ssa.BasicBlock]*ssa.BasicBlock
	entrySt     *State
	entryReach  *Term
	parent   *Frame // inlining frame this one was entered from
	lastCalled map[string]*Term // callee (short name) -> condition under which it has been called so far
	lastRets map[string][]Val
	lastRetNames map[string]map[string]int
}

type loopState struct {
	ordinal int
	headSt  *State // state after havoc at header
	preSt   *State // state at loop entry
	phis    map[*ssa.Phi]Val
	mods    []ModLoc
	spec    *LoopSpec
	reach   *Term
	unroll  bool
	entryVars map[string]Val
}

func (fr *Frame) b() *TermBank { return fr.cx.w.b }
func (fr *Frame) w() *World    { return fr.cx.w }

func (fr *Frame) pos(p token.Pos) string {
	if !p.IsValid() {
		return ""
	}
	ps := fr.fn.Prog.Fset.Position(p)
	return fmt.Sprintf("%s:%d", shortFile(ps.Filename), ps.Line)
}

func shortFile(f string) string {
	f = strings.TrimPrefix(f, "/repo/")
	return f
}

// oblige records a proof obligation at the current point.
func (fr *Frame) oblige(kind, label, clause string, p token.Pos, goal *Term) {
	if isTrue(goal) {
		// count trivially true obligations too (discharged by the simplifier)
		fr.cx.newObligation(kind, label, clause, fr.pos(p), fr.reach, goal, fr.props())
		return
	}
	fr.cx.newObligation(kind, label, clause, fr.pos(p), fr.reach, goal, fr.props())
	// after a check the execution continues only if the check passed
	fr.cx.assume(fr.b().Implies(fr.reach, goal))
}

func (fr *Frame) props() []string {
	if fr.cx.bc != nil {
		return fr.cx.bc.C.Props
	}
	return nil
}

func (fr *Frame) safety(label string, p token.Pos, goal *Term) {
	if isTrue(goal) {
		fr.cx.trivialSafety++
		return
	}
	if fr.fn != fr.cx.fn {
		label = label + "@" + strings.TrimPrefix(shortName(fr.fn.String()), "txfile.")
	}
	if fr.cx.bc != nil && fr.cx.bc.C.NoSafety {
		fr.cx.assume(fr.b().Implies(fr.reach, goal))
		return
	}
	fr.oblige("safety", label, "", p, goal)
}

// checkGuard emits the guarded-by obligations for a write to loc (and, for
// aggregate writes, to the guarded fields inside it).
func (fr *Frame) checkGuard(loc *Term, typ types.Type, p token.Pos, what string) {
	w := fr.w()
	if len(w.guards) == 0 || (fr.cx.bc != nil && fr.cx.bc.C.Unguarded) {
		return
	}
	d := def(loc)
	if locCtor(d) == "Fld" {
		var fid int
		fmt.Sscan(d.args[1].op, &fid)
		if bg := w.guards[fid]; bg != nil {
			fr.guardObligation(bg, d.args[0], p, what)
		}
	}
	// aggregate write: guarded fields nested inside
	if isStructType(typ) {
		si := w.structInfo(typ)
		for _, f := range si.Fields {
			if bg := w.guards[f.FID]; bg != nil {
				fr.guardObligation(bg, loc, p, what)
			} else if isStructType(f.Type) {
				fr.checkGuard(fr.b().Fld(loc, f.FID), f.Type, p, what)
			}
		}
	}
}

func (fr *Frame) guardObligation(bg *boundGuard, self *Term, p token.Pos, what string) {
	env := &SpecEnv{cx: fr.cx, pkg: bg.pkg, vars: map[string]Val{"self": {t: self, typ: types.NewPointer(bg.structT)}}, cur: fr.st, old: fr.entry}
	g := fr.evalClause(env, bg.g.Cond)
	if g == nil {
		return
	}
	label := bg.g.TypeName + "." + bg.g.Field
	if fr.fn != fr.cx.fn {
		label += "@" + strings.TrimPrefix(shortName(fr.fn.String()), "txfile.")
	}
	props := append([]string{}, fr.props()...)
	for _, gp := range bg.g.Props {
		if !propsContain(props, gp) {
			props = append(props, gp)
		}
	}
	o := fr.cx.newObligation("guarded-by", label, bg.g.Cond.Text, fr.pos(p), fr.reach, g, props)
	_ = o
	fr.cx.assume(fr.b().Implies(fr.reach, g))
}

func (fr *Frame) assume(t *Term) {
	fr.cx.assume(fr.b().Implies(fr.reach, t))
}

func (fr *Frame) isParamName(name string) bool {
	for _, p := range fr.fn.Params {
		if p.Name() == name {
			return true
		}
	}
	return false
}

func (fr *Frame) tryVal(v ssa.Value) (val Val, ok bool) {
	defer func() {
		if r := recover(); r != nil {
			ok = false
		}
	}()
	return fr.val(v), true
}

// value lookup
func (fr *Frame) val(v ssa.Value) Val {
	if x, ok := fr.vals[v]; ok {
		return x
	}
	w, b := fr.w(), fr.b()
	switch c := v.(type) {
	case *ssa.Const:
		return fr.constVal(c)
	case *ssa.Global:
		return Val{t: b.Glob(w.globID(c)), typ: c.Type()}
	case *ssa.Function:
		return Val{t: b.Int(int64(w.funcID(c))), typ: c.Type(), fn: &FuncVal{fn: c}}
	case *ssa.Builtin:
		return Val{typ: c.Type()}
	case *ssa.FreeVar:
		for i, fv := range fr.fn.FreeVars {
			if fv == c {
				return fr.free[i]
			}
		}
	case *ssa.Parameter:
		for i, p := range fr.fn.Params {
			if p == c {
				return fr.params[i]
			}
		}
	}
	panic(fmt.Sprintf("no value for %s (%T) in %s", v.Name(), v, fr.fn))
}

func (fr *Frame) constVal(c *ssa.Const) Val {
	w, b := fr.w(), fr.b()
	t := c.Type()
	if c.Value == nil {
		return Val{t: w.zero(t), typ: t}
	}
	if n, ok := opaqueLE(t); ok {
		_ = n
		return Val{t: w.zero(t), typ: t}
	}
	switch u := t.Underlying().(type) {
	case *types.Basic:
		switch {
		case u.Info()&types.IsBoolean != 0:
			return Val{t: b.Bool(constant.BoolVal(c.Value)), typ: t}
		case u.Info()&types.IsInteger != 0:
			return Val{t: fr.cx.intConst(c.Value, t), typ: t}
		case u.Info()&types.IsString != 0:
			return Val{t: b.Int(int64(w.strID(constant.StringVal(c.Value)))), typ: t}
		case u.Info()&types.IsFloat != 0:
			f, _ := constant.Float64Val(c.Value)
			s := fmt.Sprintf("%f", f)
			if f < 0 {
				s = fmt.Sprintf("(- %f)", -f)
			}
			return Val{t: b.mk(s, SReal), typ: t}
		}
	}
	return Val{t: w.zero(t), typ: t}
}

// ---------- function execution ----------

// run executes the frame's function from state st under guard reach and
// returns the merged results, the exit state and the exit reach.
type inEdge struct {
	pred    *ssa.BasicBlock
	reach   *Term
	st      *State
	phiVals []Val             // operands of the target's phis for this edge
	live    map[ssa.Value]Val // values defined in an unrolled loop and used after it
}

func (fr *Frame) run(st *State, reach *Term) ([]Val, *State, *Term) {
	fn := fr.fn
	b := fr.b()
	if len(fn.Blocks) == 0 {
		panic("no body: " + fn.String())
	}
	fr.entry = st.clone()
	fr.out = map[*ssa.BasicBlock]*blockEnd{}
	fr.loopHead = map[*ssa.BasicBlock]*loopState{}
	fr.callN = map[string]int{}
	fr.edges = map[*ssa.BasicBlock][]inEdge{}
	fr.pendingBack = map[*ssa.BasicBlock][]inEdge{}
	order, backEdges := blockOrder(fn)
	fr.order = order
	// loop ordinals by header index
	var heads []*ssa.BasicBlock
	headSet := map[*ssa.BasicBlock]bool{}
	for _, e := range backEdges {
		if !headSet[e[1]] {
			headSet[e[1]] = true
			heads = append(heads, e[1])
		}
	}
	sort.Slice(heads, func(i, j int) bool { return heads[i].Index < heads[j].Index })
	fr.loops = map[*ssa.BasicBlock]int{}
	for i, h := range heads {
		fr.loops[h] = i
	}
	fr.isBack = map[[2]*ssa.BasicBlock]bool{}
	for _, e := range backEdges {
		fr.isBack[e] = true
	}
	// unrolled loops: header -> bound
	fr.unrollK = map[*ssa.BasicBlock]int{}
	fr.inUnrolled = map[*ssa.BasicBlock]*ssa.BasicBlock{}
	for _, h := range heads {
		if sp := fr.loopSpec(fr.loops[h]); sp != nil && sp.Unroll > 0 {
			fr.unrollK[h] = sp.Unroll
		} else if sp == nil && fr.defaultUnroll() > 0 {
			fr.unrollK[h] = fr.defaultUnroll()
		}
	}
	for h := range fr.unrollK {
		for blk := range loopBlocks(h) {
			// innermost unrolled loop containing blk
			if cur, ok := fr.inUnrolled[blk]; !ok || len(loopBlocks(h)) < len(loopBlocks(cur)) {
				fr.inUnrolled[blk] = h
			}
		}
	}
	fr.entrySt, fr.entryReach = st.clone(), reach
	fr.execBlocks(order, nil)

	// merge returns
	if len(fr.rets) == 0 {
		return nil, st, b.False()
	}
	var rs []*Term
	for _, r := range fr.rets {
		rs = append(rs, r.reach)
	}
	outReach := b.Name("exit_"+sanitize(fn.Name()), b.Or(rs...))
	outSt := newState()
	names := map[string]bool{}
	for _, r := range fr.rets {
		for k := range r.st.heaps {
			names[k] = true
		}
	}
	last := fr.rets[len(fr.rets)-1]
	for _, k := range sortedKeys(names) {
		h := last.st.heap(fr.cx, k)
		for i := len(fr.rets) - 2; i >= 0; i-- {
			h = b.Ite(fr.rets[i].reach, fr.rets[i].st.heap(fr.cx, k), h)
		}
		outSt.set(k, b.Name(k, h))
	}
	nres := len(last.results)
	results := make([]Val, nres)
	for j := 0; j < nres; j++ {
		v := last.results[j].t
		fv := last.results[j].fn
		for i := len(fr.rets) - 2; i >= 0; i-- {
			v = b.Ite(fr.rets[i].reach, fr.rets[i].results[j].t, v)
			if fr.rets[i].results[j].fn != fv {
				fv = nil
			}
		}
		results[j] = Val{t: b.Name("ret_"+sanitize(fn.Name()), v), typ: last.results[j].typ, fn: fv}
	}
	return results, outSt, outReach
}

// defaultUnroll: bound for loops without any loop spec in a function marked `unroll N`.
func (fr *Frame) defaultUnroll() int {
	if bc := fr.eng().contractFor(fr.fn); bc != nil {
		return bc.C.Unroll
	}
	return 0
}

// execBlocks executes the given blocks (in topological order). Blocks that belong
// to an unrolled loop other than `inside` are handled by unroll().
func (fr *Frame) execBlocks(blocks []*ssa.BasicBlock, inside *ssa.BasicBlock) {
	for _, blk := range blocks {
		owner := fr.inUnrolled[blk]
		if owner != nil && owner != inside {
			// block of a (nested) unrolled loop: executed by unroll() when its header comes up
			if blk == owner || fr.outermostUnrolledBelow(blk, inside) == blk {
				fr.unroll(fr.outermostUnrolledBelow(blk, inside))
			}
			continue
		}
		fr.execBlock(blk)
	}
}

// outermostUnrolledBelow returns the header of the outermost unrolled loop that
// contains blk and is strictly inside `inside` (nil: whole function).
func (fr *Frame) outermostUnrolledBelow(blk, inside *ssa.BasicBlock) *ssa.BasicBlock {
	var best *ssa.BasicBlock
	bestSize := -1
	for h := range fr.unrollK {
		if h == inside {
			continue
		}
		body := loopBlocks(h)
		if !body[blk] {
			continue
		}
		if inside != nil && !loopBlocks(inside)[h] {
			continue
		}
		if len(body) > bestSize {
			best, bestSize = h, len(body)
		}
	}
	return best
}

// unroll executes the loop with header h iteration by iteration up to its bound.
func (fr *Frame) unroll(h *ssa.BasicBlock) {
	b := fr.b()
	K := fr.unrollK[h]
	body := loopBlocks(h)
	var bodyOrder []*ssa.BasicBlock
	for _, blk := range fr.order {
		if body[blk] {
			bodyOrder = append(bodyOrder, blk)
		}
	}
	fr.cx.bounded = fmt.Sprintf("loops unrolled: at most %d evaluations of the loop condition per loop (inputs needing more are excluded)", K)
	incoming := fr.edges[h]
	savedBack := fr.pendingBack[h]
	for iter := 0; ; iter++ {
		if len(incoming) == 0 {
			break
		}
		if iter >= K {
			for _, e := range incoming {
				fr.cx.assume(b.Not(e.reach))
			}
			break
		}
		for blk := range body {
			if blk != h {
				delete(fr.edges, blk)
			}
		}
		fr.pendingBack[h] = nil
		fr.edges[h] = incoming
		fr.execBlocks(bodyOrder, h)
		incoming = fr.pendingBack[h]
	}
	fr.pendingBack[h] = savedBack
}

// liveOut: values defined inside the loop body and used outside of it (other than by phis of exit targets).
func (fr *Frame) liveOut(body map[*ssa.BasicBlock]bool) []ssa.Value {
	var out []ssa.Value
	for blk := range body {
		for _, ins := range blk.Instrs {
			v, ok := ins.(ssa.Value)
			if !ok || v.Referrers() == nil {
				continue
			}
			for _, ref := range *v.Referrers() {
				if ref.Block() != nil && !body[ref.Block()] {
					if _, isPhi := ref.(*ssa.Phi); !isPhi {
						out = append(out, v)
						break
					}
				}
			}
		}
	}
	return out
}

// finishBlock records the outgoing edges of a block that falls through.
func (fr *Frame) finishBlock(blk *ssa.BasicBlock) {
	b := fr.b()
	for _, s := range blk.Succs {
		er := b.And(fr.reach, fr.edgeCond(blk, s))
		if isFalse(er) {
			continue
		}
		pi := -1
		for i, p := range s.Preds {
			if p == blk {
				pi = i
			}
		}
		e := inEdge{pred: blk, reach: er, st: fr.st}
		for _, ins := range s.Instrs {
			p, ok := ins.(*ssa.Phi)
			if !ok {
				break
			}
			v := fr.val(p.Edges[pi])
			e.phiVals = append(e.phiVals, v)
		}
		if fr.isBack[[2]*ssa.BasicBlock{blk, s}] {
			if _, unrolled := fr.unrollK[s]; unrolled {
				fr.pendingBack[s] = append(fr.pendingBack[s], e)
			}
			// invariant loops: handled by backEdge() from execBlock
			continue
		}
		// leaving an unrolled loop: capture the loop-defined values used later
		if h := fr.inUnrolled[blk]; h != nil && !loopBlocks(h)[s] {
			e.live = map[ssa.Value]Val{}
			for _, v := range fr.liveOut(loopBlocks(h)) {
				if x, ok := fr.vals[v]; ok {
					e.live[v] = x
				}
			}
		}
		fr.edges[s] = append(fr.edges[s], e)
	}
}

// execBlock executes one basic block from the edges recorded for it.
func (fr *Frame) execBlock(blk *ssa.BasicBlock) {
	fn := fr.fn
	b := fr.b()
	var inReach *Term
	var inSt *State
	var ins []inEdge
	if blk == fn.Blocks[0] {
		inReach, inSt = fr.entryReach, fr.entrySt.clone()
	} else {
		ins = fr.edges[blk]
		if len(ins) == 0 {
			return // unreachable block
		}
		var rs []*Term
		for _, e := range ins {
			rs = append(rs, e.reach)
		}
		inReach = b.Name("reach_"+fmt.Sprint(blk.Index), b.Or(rs...))
		// merge heaps
		inSt = newState()
		names := map[string]bool{}
		for _, e := range ins {
			for k := range e.st.heaps {
				names[k] = true
			}
		}
		for _, k := range sortedKeys(names) {
			h := ins[len(ins)-1].st.heap(fr.cx, k)
			for i := len(ins) - 2; i >= 0; i-- {
				h = b.Ite(ins[i].reach, ins[i].st.heap(fr.cx, k), h)
			}
			inSt.set(k, b.Name(k, h))
		}
		// values that left an unrolled loop: merge over the exits
		liveVals := map[ssa.Value]bool{}
		for _, e := range ins {
			for v := range e.live {
				liveVals[v] = true
			}
		}
		for v := range liveVals {
			var t *Term
			var typ types.Type
			for i := len(ins) - 1; i >= 0; i-- {
				x, ok := ins[i].live[v]
				if !ok {
					continue
				}
				typ = x.typ
				if t == nil {
					t = x.t
				} else if x.t != nil {
					t = b.Ite(ins[i].reach, x.t, t)
				}
			}
			if t != nil {
				fr.vals[v] = Val{t: t, typ: typ}
			}
		}
	}
	fr.st, fr.reach = inSt, inReach
	if fr.top {
		fr.cx.curBlk = blk
	}
	// source-level names: what the immediate dominator knew, plus this block's phis
	fr.localVars = map[string]Val{}
	if idom := blk.Idom(); idom != nil {
		for k, v := range fr.localsOut[idom] {
			fr.localVars[k] = v
		}
	}

	// phis
	var phis []*ssa.Phi
	for _, ins := range blk.Instrs {
		if p, ok := ins.(*ssa.Phi); ok {
			phis = append(phis, p)
		} else {
			break
		}
	}
	phiMerge := func(pi int) Val {
		var v *Term
		var fv *FuncVal
		var typ types.Type
		for i := len(ins) - 1; i >= 0; i-- {
			x := ins[i].phiVals[pi]
			typ = x.typ
			if v == nil {
				v = x.t
				fv = x.fn
			} else {
				v = b.Ite(ins[i].reach, x.t, v)
				if x.fn != fv {
					fv = nil
				}
			}
		}
		return Val{t: v, typ: typ, fn: fv}
	}
	_, isHead := fr.loops[blk]
	_, isUnrolled := fr.unrollK[blk]
	if isHead && !isUnrolled {
		idxOf := map[*ssa.Phi]int{}
		for i, p := range phis {
			idxOf[p] = i
		}
		if !fr.enterLoop(blk, phis, func(p *ssa.Phi) Val { return phiMerge(idxOf[p]) }) {
			return
		}
	} else {
		for i, p := range phis {
			m := phiMerge(i)
			fr.vals[p] = Val{t: b.Name(p.Name(), m.t), typ: p.Type(), fn: m.fn}
		}
	}

	for _, p := range phis {
		if nm := phiSourceName(p); nm != "" && nm != "rangeindex" {
			if v, ok := fr.vals[p]; ok {
				fr.localVars[nm] = v
			}
		}
	}
	ended := false
	for _, ins := range blk.Instrs[len(phis):] {
		if isFalse(fr.reach) {
			ended = true
			break
		}
		if fr.exec(ins) {
			ended = true
			break
		}
	}
	if fr.localsOut == nil {
		fr.localsOut = map[*ssa.BasicBlock]map[string]Val{}
	}
	fr.localsOut[blk] = fr.localVars
	if ended {
		return
	}
	// block falls through to successors
	fr.out[blk] = &blockEnd{st: fr.st, reach: fr.reach}
	fr.finishBlock(blk)
	// back edges of invariant loops leaving this block
	for _, s := range blk.Succs {
		if fr.isBack[[2]*ssa.BasicBlock{blk, s}] {
			if _, unrolled := fr.unrollK[s]; !unrolled {
				fr.backEdge(blk, s)
			}
		}
	}
}

func (fr *Frame) edgeCond(p, s *ssa.BasicBlock) *Term {
	b := fr.b()
	if len(p.Instrs) == 0 {
		return b.True()
	}
	if iff, ok := p.Instrs[len(p.Instrs)-1].(*ssa.If); ok {
		c := fr.val(iff.Cond).t
		if p.Succs[0] == s && p.Succs[1] == s {
			return b.True()
		}
		if p.Succs[0] == s {
			return c
		}
		return b.Not(c)
	}
	return b.True()
}

// blockOrder returns a topological order of the CFG without back edges, and the back edges.
func blockOrder(fn *ssa.Function) ([]*ssa.BasicBlock, [][2]*ssa.BasicBlock) {
	var back [][2]*ssa.BasicBlock
	isBack := map[[2]*ssa.BasicBlock]bool{}
	for _, blk := range fn.Blocks {
		for _, s := range blk.Succs {
			if s.Dominates(blk) {
				e := [2]*ssa.BasicBlock{blk, s}
				back = append(back, e)
				isBack[e] = true
			}
		}
	}
	visited := map[*ssa.BasicBlock]bool{}
	var post []*ssa.BasicBlock
	var dfs func(b *ssa.BasicBlock)
	dfs = func(b *ssa.BasicBlock) {
		visited[b] = true
		for i := len(b.Succs) - 1; i >= 0; i-- {
			s := b.Succs[i]
			if isBack[[2]*ssa.BasicBlock{b, s}] || visited[s] {
				continue
			}
			dfs(s)
		}
		post = append(post, b)
	}
	dfs(fn.Blocks[0])
	order := make([]*ssa.BasicBlock, 0, len(post))
	for i := len(post) - 1; i >= 0; i-- {
		order = append(order, post[i])
	}
	return order, back
}

// ---------- loops ----------

func (fr *Frame) loopSpec(ord int) *LoopSpec {
	c := fr.eng().contractFor(fr.fn)
	if c == nil {
		return nil
	}
	return c.C.Loops[ord]
}

func (fr *Frame) eng() *Engine { return fr.cx.eng }

func (fr *Frame) specEnv(cur *State) *SpecEnv {
	pkg := fr.fn.Pkg
	f := fr.fn
	for pkg == nil && f.Parent() != nil {
		f = f.Parent()
		pkg = f.Pkg
	}
	var tp *types.Package
	if pkg != nil {
		tp = pkg.Pkg
	}
	if bc := fr.eng().contractFor(fr.fn); bc != nil {
		tp = fr.eng().typesPackage(bc.C.PkgPath)
	}
	vars := fr.vars
	if len(fr.localVars) > 0 {
		vars = map[string]Val{}
		for k, v := range fr.localVars {
			vars[k] = v
		}
		for k, v := range fr.vars {
			vars[k] = v
		}
	}
	return &SpecEnv{cx: fr.cx, pkg: tp, vars: vars, cur: cur, old: fr.entry, ranges: fr.ranges, rets: fr.lastRets, retNames: fr.lastRetNames, called: fr.lastCalled}
}

// enterLoop handles a loop header: checks the invariant on entry, havocs the
// loop-carried state and assumes the invariant for an arbitrary iteration.
func (fr *Frame) enterLoop(head *ssa.BasicBlock, phis []*ssa.Phi, outside func(*ssa.Phi) Val) bool {
	b := fr.b()
	ord := fr.loops[head]
	spec := fr.loopSpec(ord)
	ls := &loopState{ordinal: ord, spec: spec, phis: map[*ssa.Phi]Val{}}
	fr.loopHead[head] = ls
	if spec == nil {
		fr.cx.undecide("loop %d of %s has no invariant (outside the verified subset)", ord, fr.fn)
		fr.reach = b.False()
		return false
	}
	pre := fr.st.clone()
	ls.preSt = pre
	// 1. invariant on entry, with phi = outside value
	entryVars := map[string]Val{}
	for k, v := range fr.specEnv(fr.st).vars {
		entryVars[k] = v
	}
	phiOutside := map[*ssa.Phi]Val{}
	for _, p := range phis {
		ov := outside(p)
		phiOutside[p] = ov
		if nm := phiSourceName(p); nm != "" {
			entryVars[nm] = ov
			entryVars[nm+"0"] = ov
		}
	}
	fr.bindParamCells(entryVars)
	env := fr.specEnv(fr.st)
	env.vars = entryVars
	env.pre = pre
	for i, inv := range spec.Invariants {
		if inv.Assumed {
			continue
		}
		g := fr.evalClause(env, inv)
		if g != nil {
			fr.oblige("invariant-entry", fmt.Sprintf("loop%d.%s", ord, clauseLabel(inv, i)), inv.Text, head.Instrs[0].Pos(), g)
		}
	}
	// 2. havoc
	menv := fr.specEnv(pre)
	menv.vars = entryVars
	for _, mc := range spec.Modifies {
		for _, x := range mc.Exprs {
			locs := fr.evalLocs(menv, x, mc)
			ls.mods = append(ls.mods, locs...)
		}
	}
	for _, m := range ls.mods {
		fr.cx.havocLoc(fr.st, m)
	}
	// objects created by make/append/map literals before the loop may have been written by
	// earlier iterations: their cells are arbitrary at the head of an arbitrary iteration
	if fr.cx.dynAlloc {
		written := map[int]bool{}
		for _, al := range fr.localsWrittenInLoop(head) {
			if v, ok := fr.vals[al]; ok && v.t != nil {
				if d := def(v.t); locCtor(d) == "New" {
					var k int
					fmt.Sscan(d.args[0].op, &k)
					written[k] = true
				}
			}
		}
		var keepIDs []int
		for k := range fr.cx.allocType {
			if !written[k] {
				keepIDs = append(keepIDs, k)
			}
		}
		sort.Ints(keepIDs)
		for _, hn := range sortedKeys(fr.w().heapSort) {
			srt := fr.w().heapSort[hn]
			if arrayKeySort(srt) != SLoc {
				continue
			}
			h := fr.st.heap(fr.cx, hn)
			nh := b.Const("lh_"+hn, srt)
			ln := fmt.Sprintf("l?%d", fr.cx.nextBound())
			l := b.BVar(ln, SLoc)
			keep := []*Term{b.Not(fr.cx.rootIsNew(l))}
			nid := b.mk("newId6", SInt, l)
			for _, k := range keepIDs {
				keep = append(keep, b.Eq(nid, b.Int(int64(k))))
			}
			fr.assume(b.Forall([]BoundVar{{ln, SLoc}}, b.Implies(b.Or(keep...), b.Eq(b.Select(nh, l), b.Select(h, l))), b.Select(nh, l)))
			fr.st.set(hn, nh)
		}
	}
	// local variables (allocations made before the loop) that the loop body writes or hands out
	for _, al := range fr.localsWrittenInLoop(head) {
		if v, ok := fr.vals[al]; ok && v.t != nil {
			el := al.Type().Underlying().(*types.Pointer).Elem()
			m := ModLoc{loc: v.t, typ: el, text: "local " + al.Comment}
			ls.mods = append(ls.mods, m)
			fr.cx.havocLoc(fr.st, m)
		}
	}
	{
		body := loopBlocks(head)
		for blk := range body {
			for _, ins := range blk.Instrs {
				nx, ok := ins.(*ssa.Next)
				if !ok {
					continue
				}
				rg, ok := nx.Iter.(*ssa.Range)
				if !ok || body[rg.Block()] {
					continue
				}
				if v, ok := fr.vals[rg]; ok && v.iter != nil && v.iter.vis != nil {
					it := v.iter
					ks := fr.w().sortOf(it.mt.Key())
					vh := fr.st.heap(fr.cx, it.visHeap)
					fr.st.set(it.visHeap, b.Name(it.visHeap, b.Store(vh, it.vis, b.Const("visited", SArray(ks, SBool)))))
					if it.cnt != nil {
						ch := fr.w().heapName(SBV(64))
						fr.st.set(ch, b.Name(ch, b.Store(fr.st.heap(fr.cx, ch), it.cnt, b.Const("produced", SBV(64)))))
					}
				}
			}
		}
	}
	for _, p := range phis {
		s := fr.w().sortOf(p.Type())
		v := Val{t: b.Const(p.Name()+"_"+phiSourceName(p), s), typ: p.Type(), fn: phiOutside[p].fn}
		fr.assume(fr.cx.typeInv(v.t, p.Type()))
		// a loop-carried value is either older than the loop or an object of an earlier
		// iteration, never one of the objects this iteration is about to allocate
		fr.assume(fr.cx.notFuture(v.t))
		fr.vals[p] = v
		ls.phis[p] = v
	}
	for _, p := range phis {
		if phiSourceName(p) == "rangeindex" {
			// the hidden index of a range loop starts at -1 and only counts up to a length
			fr.assume(b.And(b.BVCmp("bvsge", fr.vals[p].t, b.BV(^uint64(0), 64)), b.BVCmp("bvslt", fr.vals[p].t, b.BV(1<<62, 64))))
		}
	}
	// called(X) is a fact about the whole execution so far: at the head of an arbitrary iteration a callee that the
	// body can call may have been called by an earlier iteration
	{
		names, unknown := calleeNamesIn(loopBlocks(head))
		for f := fr; f != nil; f = f.parent {
			nm := map[string]*Term{}
			for k, v := range f.lastCalled {
				nm[k] = v
			}
			hv := func(k string) {
				// only executions that pass this loop head can have called it in an earlier iteration
				fv := b.And(fr.reach, b.Const("calledBefore_"+k, SBool))
				if prev, ok := nm[k]; ok {
					nm[k] = b.Or(prev, fv)
				} else {
					nm[k] = fv
				}
			}
			for k := range names {
				hv(k)
			}
			if unknown {
				for k := range nm {
					if k != calledAnyKey && !names[k] {
						hv(k)
					}
				}
				if prev, ok := nm[calledAnyKey]; ok {
					nm[calledAnyKey] = b.Or(prev, fr.reach)
				} else {
					nm[calledAnyKey] = fr.reach
				}
			}
			f.lastCalled = nm
		}
	}
	ls.headSt = fr.st.clone()
	ls.reach = fr.reach
	// 3. assume invariant
	vars := map[string]Val{}
	for k, v := range fr.specEnv(fr.st).vars {
		vars[k] = v
	}
	for _, p := range phis {
		if nm := phiSourceName(p); nm != "" {
			vars[nm] = fr.vals[p]
		}
	}
	for _, p := range phis {
		if nm := phiSourceName(p); nm != "" {
			vars[nm+"0"] = phiOutside[p]
		}
	}
	fr.bindParamCells(vars)
	ls.entryVars = vars
	env2 := fr.specEnv(fr.st)
	env2.vars = vars
	env2.pre = pre
	unbound := false
	for _, inv := range spec.Invariants {
		if inv.Assumed {
			fr.cx.trust(fmt.Sprintf("assumed at the head of loop %d of %s (data read from outside the verified state): %s", ord, fr.fn, inv.Text))
		}
		if g := fr.evalClause(env2, inv); g != nil {
			fr.assume(g)
		} else if !inv.Assumed {
			// the loop contract does not bind to this loop any more (the loop was rewritten): the function is
			// undecided (reported above); nothing behind the loop head is judged without its invariant
			unbound = true
		}
	}
	if unbound {
		fr.reach = b.False()
		return false
	}
	sent := fr.cx.newObligation("cover", fmt.Sprintf("loop%d-body", ord), "the loop invariants and frame do not contradict each other", fr.pos(head.Instrs[0].Pos()), fr.reach, b.False(), fr.props())
	sent.IsCover, sent.FullCover, sent.Trivial = true, true, false
	return true
}

// loopBlocks returns the natural loop of header head.
func loopBlocks(head *ssa.BasicBlock) map[*ssa.BasicBlock]bool {
	body := map[*ssa.BasicBlock]bool{head: true}
	var stack []*ssa.BasicBlock
	for _, p := range head.Preds {
		if head.Dominates(p) {
			stack = append(stack, p)
		}
	}
	for len(stack) > 0 {
		x := stack[len(stack)-1]
		stack = stack[:len(stack)-1]
		if body[x] {
			continue
		}
		body[x] = true
		for _, p := range x.Preds {
			stack = append(stack, p)
		}
	}
	return body
}

func baseAlloc(v ssa.Value) *ssa.Alloc {
	for depth := 0; depth < 16; depth++ {
		switch x := v.(type) {
		case *ssa.Alloc:
			return x
		case *ssa.FieldAddr:
			v = x.X
		case *ssa.IndexAddr:
			v = x.X
		case *ssa.Slice:
			v = x.X
		case *ssa.ChangeType:
			v = x.X
		default:
			return nil
		}
	}
	return nil
}

// localsWrittenInLoop: allocations defined outside the loop that are stored to,
// or whose address is passed to a call, inside the loop.
func (fr *Frame) localsWrittenInLoop(head *ssa.BasicBlock) []*ssa.Alloc {
	body := loopBlocks(head)
	seen := map[*ssa.Alloc]bool{}
	var out []*ssa.Alloc
	add := func(v ssa.Value) {
		if al := baseAlloc(v); al != nil && !body[al.Block()] && !seen[al] {
			seen[al] = true
			out = append(out, al)
		}
	}
	for blk := range body {
		for _, ins := range blk.Instrs {
			switch x := ins.(type) {
			case *ssa.Store:
				add(x.Addr)
			case ssa.CallInstruction:
				for _, a := range x.Common().Args {
					add(a)
				}
				if mc, ok := x.Common().Value.(*ssa.MakeClosure); ok {
					for _, bv := range mc.Bindings {
						add(bv)
					}
				}
			case *ssa.MakeClosure:
				for _, bv := range x.Bindings {
					add(bv)
				}
			}
		}
	}
	sort.Slice(out, func(i, j int) bool { return out[i].Pos() < out[j].Pos() })
	return out
}

func phiSourceName(p *ssa.Phi) string {
	if p.Comment != "" {
		return p.Comment
	}
	return ""
}

func clauseLabel(c *Clause, i int) string {
	if c.Label != "" {
		return c.Label
	}
	return fmt.Sprint(i)
}

func (fr *Frame) backEdge(from, head *ssa.BasicBlock) {
	b := fr.b()
	ls := fr.loopHead[head]
	if ls == nil || ls.spec == nil {
		return
	}
	pe := fr.out[from]
	saveSt, saveReach := fr.st, fr.reach
	fr.st = pe.st
	fr.reach = b.And(pe.reach, fr.edgeCond(from, head))
	defer func() { fr.st, fr.reach = saveSt, saveReach }()
	if isFalse(fr.reach) {
		return
	}
	// index of this predecessor
	idx := -1
	for i, p := range head.Preds {
		if p == from {
			idx = i
		}
	}
	vars := map[string]Val{}
	for k, v := range fr.specEnv(fr.st).vars {
		vars[k] = v
	}
	for _, ins := range head.Instrs {
		p, ok := ins.(*ssa.Phi)
		if !ok {
			break
		}
		if nm := phiSourceName(p); nm != "" {
			vars[nm] = fr.val(p.Edges[idx])
			vars[nm+"_head"] = ls.phis[p]
			if ev, ok := ls.entryVars[nm+"0"]; ok {
				vars[nm+"0"] = ev
			}
		}
	}
	fr.bindParamCells(vars)
	env := fr.specEnv(fr.st)
	env.vars = vars
	env.pre = ls.preSt
	env.iter = ls.headSt
	env.rets = fr.lastRets
	env.retNames = fr.lastRetNames
	for i, stp := range ls.spec.Steps {
		if g := fr.evalClause(env, stp); g != nil {
			fr.oblige("loop-step", fmt.Sprintf("loop%d.%s", ls.ordinal, clauseLabel(stp, i)), stp.Text, from.Instrs[len(from.Instrs)-1].Pos(), g)
		}
	}
	for i, inv := range ls.spec.Invariants {
		if inv.Assumed {
			continue
		}
		if g := fr.evalClause(env, inv); g != nil {
			fr.oblige("invariant-preserved", fmt.Sprintf("loop%d.%s", ls.ordinal, clauseLabel(inv, i)), inv.Text, from.Instrs[len(from.Instrs)-1].Pos(), g)
		}
	}
	// frame of the loop body
	fr.frameCheck(fmt.Sprintf("loop%d", ls.ordinal), ls.headSt, fr.st, ls.mods, from.Instrs[len(from.Instrs)-1].Pos())
}

type frameTo struct {
	reach *Term
	st    *State
}

// frameCheckMulti is frameCheck for several end states (one per return path):
// one obligation per heap, the conjunction over the paths.
func (fr *Frame) frameCheckMulti(label string, from *State, tos []frameTo, mods []ModLoc, p token.Pos) {
	b, w := fr.b(), fr.w()
	names := map[string]bool{}
	for _, t := range tos {
		for k := range t.st.heaps {
			names[k] = true
		}
	}
	for _, hn := range sortedKeys(names) {
		hf := from.heap(fr.cx, hn)
		differs := false
		for _, t := range tos {
			if def(t.st.heap(fr.cx, hn)) != def(hf) {
				differs = true
			}
		}
		if !differs {
			continue
		}
		srt := w.heapSort[hn]
		if arrayKeySort(srt) != SLoc {
			continue
		}
		vs := arrayValSort(srt)
		l := b.Const("frame_l", SLoc)
		var allowed []*Term
		allowed = append(allowed, fr.cx.rootIsNew(l))
		if len(w.exemptFID) > 0 {
			var ids []*Term
			for fid := range w.exemptFID {
				ids = append(ids, b.Eq(b.App("fid", SInt, l), b.Int(int64(fid))))
			}
			sort.Slice(ids, func(i, j int) bool { return ids[i].id < ids[j].id })
			allowed = append(allowed, b.And(b.mk("(_ is Fld)", SBool, l), b.Or(ids...)))
		}
		isMapHeap := strings.HasPrefix(hn, "M_") || strings.HasPrefix(hn, "MD_") || strings.HasPrefix(hn, "ML_")
		all := false
		for _, m := range mods {
			if m.all {
				all = true
				continue
			}
			if isMapHeap {
				if m.mapp != nil {
					allowed = append(allowed, b.Eq(l, m.mapp))
				}
				continue
			}
			if m.mapp != nil {
				continue
			}
			allowed = append(allowed, fr.cx.inMod(l, vs, m))
		}
		if all {
			continue
		}
		ok := b.Name("frame_allowed", b.Or(allowed...))
		var cs []*Term
		for _, t := range tos {
			ht := t.st.heap(fr.cx, hn)
			if def(ht) == def(hf) {
				continue
			}
			cs = append(cs, b.Implies(t.reach, b.Or(ok, b.Eq(b.Select(ht, l), b.Select(hf, l)))))
		}
		fr.oblige("frame", label+"."+hn, "only the locations in `modifies` change", p, b.And(cs...))
	}
}

// frameCheck emits one obligation per heap that differs between `from` and
// `to`: every location outside mods (and outside objects allocated meanwhile)
// keeps its value.
func (fr *Frame) frameCheck(label string, from, to *State, mods []ModLoc, p token.Pos) {
	b, w := fr.b(), fr.w()
	names := map[string]bool{}
	for k := range to.heaps {
		names[k] = true
	}
	for _, hn := range sortedKeys(names) {
		hf, ht := from.heap(fr.cx, hn), to.heap(fr.cx, hn)
		if def(hf) == def(ht) {
			continue
		}
		srt := w.heapSort[hn]
		if arrayKeySort(srt) != SLoc {
			continue
		}
		vs := arrayValSort(srt)
		fr.cx.skolemN++
		l := b.Const("frame_l", SLoc)
		var allowed []*Term
		allowed = append(allowed, fr.cx.rootIsNew(l))
		if len(w.exemptFID) > 0 {
			var ids []*Term
			for fid := range w.exemptFID {
				ids = append(ids, b.Eq(b.App("fid", SInt, l), b.Int(int64(fid))))
			}
			sort.Slice(ids, func(i, j int) bool { return ids[i].id < ids[j].id })
			allowed = append(allowed, b.And(b.mk("(_ is Fld)", SBool, l), b.Or(ids...)))
		}
		isMapHeap := strings.HasPrefix(hn, "M_") || strings.HasPrefix(hn, "MD_") || strings.HasPrefix(hn, "ML_")
		for _, m := range mods {
			if m.all {
				allowed = append(allowed, b.True())
				continue
			}
			if isMapHeap {
				if m.mapp != nil {
					allowed = append(allowed, b.Eq(l, m.mapp))
				}
				continue
			}
			if m.mapp != nil {
				continue
			}
			allowed = append(allowed, fr.cx.inMod(l, vs, m))
		}
		goal := b.Or(append(allowed, b.Eq(b.Select(ht, l), b.Select(hf, l)))...)
		fr.oblige("frame", label+"."+hn, "only the locations in `modifies` change", p, goal)
	}
}

func (fr *Frame) evalClause(env *SpecEnv, c *Clause) (t *Term) {
	defer func() {
		if r := recover(); r != nil {
			if se, ok := r.(specError); ok {
				fr.cx.undecide("%s:%d: cannot bind `%s`: %s", c.File, c.Line, c.Text, se.msg)
				t = nil
				return
			}
			panic(r)
		}
	}()
	return env.evalBool(c.Expr)
}

func (fr *Frame) evalLocs(env *SpecEnv, x astExpr, c *Clause) (out []ModLoc) {
	defer func() {
		if r := recover(); r != nil {
			if se, ok := r.(specError); ok {
				fr.cx.undecide("%s:%d: cannot bind modifies `%s`: %s", c.File, c.Line, c.Text, se.msg)
				out = nil
				return
			}
			panic(r)
		}
	}()
	return env.evalLocs(x)
}


// calledAnyKey marks a called-map in which a callee that has no entry may have been called (a loop body
// that calls through function values has been passed).
const calledAnyKey = "\x00any"

// calledTerm looks up the condition under which callee name has been called so far.
func calledTerm(b *TermBank, m map[string]*Term, name string) *Term {
	if m == nil {
		return b.False()
	}
	if t, ok := m[name]; ok {
		return t
	}
	if passed, any := m[calledAnyKey]; any {
		t := b.And(passed, b.Const("calledBefore_"+name, SBool))
		m[name] = t
		return t
	}
	return b.False()
}

// calleeNamesIn collects the (short) names of the functions and methods that the given blocks can call,
// directly or through statically known callees; unknown reports a call through a function value.
func calleeNamesIn(blocks map[*ssa.BasicBlock]bool) (names map[string]bool, unknown bool) {
	names = map[string]bool{}
	seen := map[*ssa.Function]bool{}
	var visitFn func(fn *ssa.Function, depth int)
	visitInstr := func(ins ssa.Instruction, depth int) {
		var cc *ssa.CallCommon
		switch x := ins.(type) {
		case *ssa.Call:
			cc = &x.Call
		case *ssa.Go:
			cc = &x.Call
		case *ssa.Defer:
			cc = &x.Call
		case *ssa.MakeClosure:
			if f, ok := x.Fn.(*ssa.Function); ok {
				visitFn(f, depth+1)
			}
			return
		default:
			return
		}
		if cc.IsInvoke() {
			names[cc.Method.Name()] = true
			return
		}
		if f := cc.StaticCallee(); f != nil {
			names[f.Name()] = true
			visitFn(f, depth+1)
			return
		}
		if _, ok := cc.Value.(*ssa.Builtin); ok {
			return
		}
		unknown = true
	}
	visitFn = func(fn *ssa.Function, depth int) {
		if fn == nil || seen[fn] || fn.Blocks == nil {
			return
		}
		if depth > 8 {
			unknown = true
			return
		}
		seen[fn] = true
		for _, blk := range fn.Blocks {
			for _, ins := range blk.Instrs {
				visitInstr(ins, depth)
			}
		}
	}
	for blk := range blocks {
		for _, ins := range blk.Instrs {
			visitInstr(ins, 0)
		}
	}
	return names, unknown
}


// bindParamCells makes a parameter that lives in a cell readable in loop clauses: its name is the
// current contents of the cell, name0 the value passed in.
func (fr *Frame) bindParamCells(vars map[string]Val) {
	for nm, cell := range fr.paramCells {
		if pv, ok := fr.vars[nm]; ok {
			vars[nm+"0"] = pv
		}
		vars[nm] = cell
	}
}
