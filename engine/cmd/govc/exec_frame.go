package main

import (
	"fmt"
	"go/constant"
	"go/token"
	"go/types"
	"sort"
	"strings"

	"golang.org/x/tools/go/ssa"
)

type blockEnd struct {
	st    *State
	reach *Term
}

type deferRec struct {
	instr *ssa.Defer
	reach *Term
	args  []Val
	fnv   Val
}

type retRec struct {
	reach   *Term
	results []Val
	st      *State
}

type Frame struct {
	cx     *Ctx
	fn     *ssa.Function
	bc     *BoundContract
	vals   map[ssa.Value]Val
	params []Val
	free   []Val
	out    map[*ssa.BasicBlock]*blockEnd
	defers []*deferRec
	rets   []*retRec
	st     *State
	reach  *Term
	depth  int
	entry  *State // state at function entry (old)
	vars   map[string]Val
	loops  map[*ssa.BasicBlock]int // header -> ordinal
	inLoop map[*ssa.BasicBlock][]*ssa.BasicBlock
	// loop bookkeeping for back edges
	loopHead map[*ssa.BasicBlock]*loopState
	top      bool
	callN    map[string]int
	ranges    []*MapIter
	rangeOf   []*ssa.Range
	localVars map[string]Val
	lastRets map[string][]Val
	lastRetNames map[string]map[string]int
}

type loopState struct {
	ordinal int
	headSt  *State // state after havoc at header
	preSt   *State // state at loop entry
	phis    map[*ssa.Phi]Val
	mods    []ModLoc
	spec    *LoopSpec
	reach   *Term
	unroll  bool
	entryVars map[string]Val
}

func (fr *Frame) b() *TermBank { return fr.cx.w.b }
func (fr *Frame) w() *World    { return fr.cx.w }

func (fr *Frame) pos(p token.Pos) string {
	if !p.IsValid() {
		return ""
	}
	ps := fr.fn.Prog.Fset.Position(p)
	return fmt.Sprintf("%s:%d", shortFile(ps.Filename), ps.Line)
}

func shortFile(f string) string {
	f = strings.TrimPrefix(f, "/repo/")
	return f
}

// oblige records a proof obligation at the current point.
func (fr *Frame) oblige(kind, label, clause string, p token.Pos, goal *Term) {
	if isTrue(goal) {
		// count trivially true obligations too (discharged by the simplifier)
		fr.cx.newObligation(kind, label, clause, fr.pos(p), fr.reach, goal, fr.props())
		return
	}
	fr.cx.newObligation(kind, label, clause, fr.pos(p), fr.reach, goal, fr.props())
	// after a check the execution continues only if the check passed
	fr.cx.assume(fr.b().Implies(fr.reach, goal))
}

func (fr *Frame) props() []string {
	if fr.cx.bc != nil {
		return fr.cx.bc.C.Props
	}
	return nil
}

func (fr *Frame) safety(label string, p token.Pos, goal *Term) {
	if isTrue(goal) {
		fr.cx.trivialSafety++
		return
	}
	if fr.fn != fr.cx.fn {
		label = label + "@" + strings.TrimPrefix(shortName(fr.fn.String()), "txfile.")
	}
	if fr.cx.bc != nil && fr.cx.bc.C.NoSafety {
		fr.cx.assume(fr.b().Implies(fr.reach, goal))
		return
	}
	fr.oblige("safety", label, "", p, goal)
}

// checkGuard emits the guarded-by obligations for a write to loc (and, for
// aggregate writes, to the guarded fields inside it).
func (fr *Frame) checkGuard(loc *Term, typ types.Type, p token.Pos, what string) {
	w := fr.w()
	if len(w.guards) == 0 || (fr.cx.bc != nil && fr.cx.bc.C.Unguarded) {
		return
	}
	d := def(loc)
	if locCtor(d) == "Fld" {
		var fid int
		fmt.Sscan(d.args[1].op, &fid)
		if bg := w.guards[fid]; bg != nil {
			fr.guardObligation(bg, d.args[0], p, what)
		}
	}
	// aggregate write: guarded fields nested inside
	if isStructType(typ) {
		si := w.structInfo(typ)
		for _, f := range si.Fields {
			if bg := w.guards[f.FID]; bg != nil {
				fr.guardObligation(bg, loc, p, what)
			} else if isStructType(f.Type) {
				fr.checkGuard(fr.b().Fld(loc, f.FID), f.Type, p, what)
			}
		}
	}
}

func (fr *Frame) guardObligation(bg *boundGuard, self *Term, p token.Pos, what string) {
	env := &SpecEnv{cx: fr.cx, pkg: bg.pkg, vars: map[string]Val{"self": {t: self, typ: types.NewPointer(bg.structT)}}, cur: fr.st, old: fr.entry}
	g := fr.evalClause(env, bg.g.Cond)
	if g == nil {
		return
	}
	label := bg.g.TypeName + "." + bg.g.Field
	if fr.fn != fr.cx.fn {
		label += "@" + strings.TrimPrefix(shortName(fr.fn.String()), "txfile.")
	}
	props := append([]string{}, fr.props()...)
	for _, gp := range bg.g.Props {
		if !propsContain(props, gp) {
			props = append(props, gp)
		}
	}
	o := fr.cx.newObligation("guarded-by", label, bg.g.Cond.Text, fr.pos(p), fr.reach, g, props)
	_ = o
	fr.cx.assume(fr.b().Implies(fr.reach, g))
}

func (fr *Frame) assume(t *Term) {
	fr.cx.assume(fr.b().Implies(fr.reach, t))
}

func (fr *Frame) isParamName(name string) bool {
	for _, p := range fr.fn.Params {
		if p.Name() == name {
			return true
		}
	}
	return false
}

func (fr *Frame) tryVal(v ssa.Value) (val Val, ok bool) {
	defer func() {
		if r := recover(); r != nil {
			ok = false
		}
	}()
	return fr.val(v), true
}

// value lookup
func (fr *Frame) val(v ssa.Value) Val {
	if x, ok := fr.vals[v]; ok {
		return x
	}
	w, b := fr.w(), fr.b()
	switch c := v.(type) {
	case *ssa.Const:
		return fr.constVal(c)
	case *ssa.Global:
		return Val{t: b.Glob(w.globID(c)), typ: c.Type()}
	case *ssa.Function:
		return Val{t: b.Int(int64(w.funcID(c))), typ: c.Type(), fn: &FuncVal{fn: c}}
	case *ssa.Builtin:
		return Val{typ: c.Type()}
	case *ssa.FreeVar:
		for i, fv := range fr.fn.FreeVars {
			if fv == c {
				return fr.free[i]
			}
		}
	case *ssa.Parameter:
		for i, p := range fr.fn.Params {
			if p == c {
				return fr.params[i]
			}
		}
	}
	panic(fmt.Sprintf("no value for %s (%T) in %s", v.Name(), v, fr.fn))
}

func (fr *Frame) constVal(c *ssa.Const) Val {
	w, b := fr.w(), fr.b()
	t := c.Type()
	if c.Value == nil {
		return Val{t: w.zero(t), typ: t}
	}
	if n, ok := opaqueLE(t); ok {
		_ = n
		return Val{t: w.zero(t), typ: t}
	}
	switch u := t.Underlying().(type) {
	case *types.Basic:
		switch {
		case u.Info()&types.IsBoolean != 0:
			return Val{t: b.Bool(constant.BoolVal(c.Value)), typ: t}
		case u.Info()&types.IsInteger != 0:
			return Val{t: fr.cx.intConst(c.Value, t), typ: t}
		case u.Info()&types.IsString != 0:
			return Val{t: b.Int(int64(w.strID(constant.StringVal(c.Value)))), typ: t}
		case u.Info()&types.IsFloat != 0:
			f, _ := constant.Float64Val(c.Value)
			s := fmt.Sprintf("%f", f)
			if f < 0 {
				s = fmt.Sprintf("(- %f)", -f)
			}
			return Val{t: b.mk(s, SReal), typ: t}
		}
	}
	return Val{t: w.zero(t), typ: t}
}

// ---------- function execution ----------

// run executes the frame's function from state st under guard reach and
// returns the merged results, the exit state and the exit reach.
func (fr *Frame) run(st *State, reach *Term) ([]Val, *State, *Term) {
	fn := fr.fn
	b := fr.b()
	if len(fn.Blocks) == 0 {
		panic("no body: " + fn.String())
	}
	fr.entry = st.clone()
	fr.out = map[*ssa.BasicBlock]*blockEnd{}
	fr.loopHead = map[*ssa.BasicBlock]*loopState{}
	fr.callN = map[string]int{}
	order, backEdges := blockOrder(fn)
	// loop ordinals by header index
	var heads []*ssa.BasicBlock
	headSet := map[*ssa.BasicBlock]bool{}
	for _, e := range backEdges {
		if !headSet[e[1]] {
			headSet[e[1]] = true
			heads = append(heads, e[1])
		}
	}
	sort.Slice(heads, func(i, j int) bool { return heads[i].Index < heads[j].Index })
	fr.loops = map[*ssa.BasicBlock]int{}
	for i, h := range heads {
		fr.loops[h] = i
	}
	isBack := map[[2]*ssa.BasicBlock]bool{}
	for _, e := range backEdges {
		isBack[e] = true
	}

	for _, blk := range order {
		var inReach *Term
		var inSt *State
		type inEdge struct {
			pred  *ssa.BasicBlock
			reach *Term
			st    *State
			idx   int
		}
		var ins []inEdge
		if blk == fn.Blocks[0] {
			inReach, inSt = reach, st.clone()
		} else {
			for pi, p := range blk.Preds {
				if isBack[[2]*ssa.BasicBlock{p, blk}] {
					continue
				}
				pe := fr.out[p]
				if pe == nil {
					continue // unreachable predecessor (e.g. recover block)
				}
				er := b.And(pe.reach, fr.edgeCond(p, blk))
				if isFalse(er) {
					continue
				}
				ins = append(ins, inEdge{p, er, pe.st, pi})
			}
			if len(ins) == 0 {
				continue // unreachable block
			}
			var rs []*Term
			for _, e := range ins {
				rs = append(rs, e.reach)
			}
			inReach = b.Name("reach_"+fmt.Sprint(blk.Index), b.Or(rs...))
			// merge heaps
			inSt = newState()
			names := map[string]bool{}
			for _, e := range ins {
				for k := range e.st.heaps {
					names[k] = true
				}
			}
			for _, k := range sortedKeys(names) {
				h := ins[len(ins)-1].st.heap(fr.cx, k)
				for i := len(ins) - 2; i >= 0; i-- {
					h = b.Ite(ins[i].reach, ins[i].st.heap(fr.cx, k), h)
				}
				inSt.set(k, b.Name(k, h))
			}
		}
		fr.st, fr.reach = inSt, inReach

		// phis
		var phis []*ssa.Phi
		for _, ins := range blk.Instrs {
			if p, ok := ins.(*ssa.Phi); ok {
				phis = append(phis, p)
			} else {
				break
			}
		}
		if _, isHead := fr.loops[blk]; isHead {
			if !fr.enterLoop(blk, phis, func(p *ssa.Phi) Val {
				// value flowing in from outside the loop
				var v *Term
				var typ types.Type
				for i := len(ins) - 1; i >= 0; i-- {
					x := fr.val(p.Edges[ins[i].idx])
					typ = x.typ
					if v == nil {
						v = x.t
					} else {
						v = b.Ite(ins[i].reach, x.t, v)
					}
				}
				return Val{t: v, typ: typ}
			}) {
				continue
			}
		} else {
			for _, p := range phis {
				var v *Term
				var fv *FuncVal
				for i := len(ins) - 1; i >= 0; i-- {
					x := fr.val(p.Edges[ins[i].idx])
					if v == nil {
						v = x.t
						fv = x.fn
					} else {
						v = b.Ite(ins[i].reach, x.t, v)
						if x.fn != fv {
							fv = nil
						}
					}
				}
				fr.vals[p] = Val{t: b.Name(p.Name(), v), typ: p.Type(), fn: fv}
			}
		}

		ended := false
		for _, ins := range blk.Instrs[len(phis):] {
			if isFalse(fr.reach) {
				ended = true
				break
			}
			if fr.exec(ins) {
				ended = true
				break
			}
		}
		if ended {
			continue
		}
		// block falls through to successors
		fr.out[blk] = &blockEnd{st: fr.st, reach: fr.reach}
		// back edges leaving this block
		for _, s := range blk.Succs {
			if isBack[[2]*ssa.BasicBlock{blk, s}] {
				fr.backEdge(blk, s)
			}
		}
	}

	// merge returns
	if len(fr.rets) == 0 {
		return nil, st, b.False()
	}
	var rs []*Term
	for _, r := range fr.rets {
		rs = append(rs, r.reach)
	}
	outReach := b.Name("exit_"+sanitize(fn.Name()), b.Or(rs...))
	outSt := newState()
	names := map[string]bool{}
	for _, r := range fr.rets {
		for k := range r.st.heaps {
			names[k] = true
		}
	}
	last := fr.rets[len(fr.rets)-1]
	for _, k := range sortedKeys(names) {
		h := last.st.heap(fr.cx, k)
		for i := len(fr.rets) - 2; i >= 0; i-- {
			h = b.Ite(fr.rets[i].reach, fr.rets[i].st.heap(fr.cx, k), h)
		}
		outSt.set(k, b.Name(k, h))
	}
	nres := len(last.results)
	results := make([]Val, nres)
	for j := 0; j < nres; j++ {
		v := last.results[j].t
		fv := last.results[j].fn
		for i := len(fr.rets) - 2; i >= 0; i-- {
			v = b.Ite(fr.rets[i].reach, fr.rets[i].results[j].t, v)
			if fr.rets[i].results[j].fn != fv {
				fv = nil
			}
		}
		results[j] = Val{t: b.Name("ret_"+sanitize(fn.Name()), v), typ: last.results[j].typ, fn: fv}
	}
	return results, outSt, outReach
}

func (fr *Frame) edgeCond(p, s *ssa.BasicBlock) *Term {
	b := fr.b()
	if len(p.Instrs) == 0 {
		return b.True()
	}
	if iff, ok := p.Instrs[len(p.Instrs)-1].(*ssa.If); ok {
		c := fr.val(iff.Cond).t
		if p.Succs[0] == s && p.Succs[1] == s {
			return b.True()
		}
		if p.Succs[0] == s {
			return c
		}
		return b.Not(c)
	}
	return b.True()
}

// blockOrder returns a topological order of the CFG without back edges, and the back edges.
func blockOrder(fn *ssa.Function) ([]*ssa.BasicBlock, [][2]*ssa.BasicBlock) {
	var back [][2]*ssa.BasicBlock
	isBack := map[[2]*ssa.BasicBlock]bool{}
	for _, blk := range fn.Blocks {
		for _, s := range blk.Succs {
			if s.Dominates(blk) {
				e := [2]*ssa.BasicBlock{blk, s}
				back = append(back, e)
				isBack[e] = true
			}
		}
	}
	visited := map[*ssa.BasicBlock]bool{}
	var post []*ssa.BasicBlock
	var dfs func(b *ssa.BasicBlock)
	dfs = func(b *ssa.BasicBlock) {
		visited[b] = true
		for i := len(b.Succs) - 1; i >= 0; i-- {
			s := b.Succs[i]
			if isBack[[2]*ssa.BasicBlock{b, s}] || visited[s] {
				continue
			}
			dfs(s)
		}
		post = append(post, b)
	}
	dfs(fn.Blocks[0])
	order := make([]*ssa.BasicBlock, 0, len(post))
	for i := len(post) - 1; i >= 0; i-- {
		order = append(order, post[i])
	}
	return order, back
}

// ---------- loops ----------

func (fr *Frame) loopSpec(ord int) *LoopSpec {
	c := fr.eng().contractFor(fr.fn)
	if c == nil {
		return nil
	}
	return c.C.Loops[ord]
}

func (fr *Frame) eng() *Engine { return fr.cx.eng }

func (fr *Frame) specEnv(cur *State) *SpecEnv {
	pkg := fr.fn.Pkg
	f := fr.fn
	for pkg == nil && f.Parent() != nil {
		f = f.Parent()
		pkg = f.Pkg
	}
	var tp *types.Package
	if pkg != nil {
		tp = pkg.Pkg
	}
	if bc := fr.eng().contractFor(fr.fn); bc != nil {
		tp = fr.eng().typesPackage(bc.C.PkgPath)
	}
	vars := fr.vars
	if len(fr.localVars) > 0 {
		vars = map[string]Val{}
		for k, v := range fr.localVars {
			vars[k] = v
		}
		for k, v := range fr.vars {
			vars[k] = v
		}
	}
	return &SpecEnv{cx: fr.cx, pkg: tp, vars: vars, cur: cur, old: fr.entry, ranges: fr.ranges}
}

// enterLoop handles a loop header: checks the invariant on entry, havocs the
// loop-carried state and assumes the invariant for an arbitrary iteration.
func (fr *Frame) enterLoop(head *ssa.BasicBlock, phis []*ssa.Phi, outside func(*ssa.Phi) Val) bool {
	b := fr.b()
	ord := fr.loops[head]
	spec := fr.loopSpec(ord)
	ls := &loopState{ordinal: ord, spec: spec, phis: map[*ssa.Phi]Val{}}
	fr.loopHead[head] = ls
	if spec == nil {
		fr.cx.undecide("loop %d of %s has no invariant (outside the verified subset)", ord, fr.fn)
		fr.reach = b.False()
		return false
	}
	pre := fr.st.clone()
	ls.preSt = pre
	// 1. invariant on entry, with phi = outside value
	entryVars := map[string]Val{}
	for k, v := range fr.specEnv(fr.st).vars {
		entryVars[k] = v
	}
	phiOutside := map[*ssa.Phi]Val{}
	for _, p := range phis {
		ov := outside(p)
		phiOutside[p] = ov
		if nm := phiSourceName(p); nm != "" {
			entryVars[nm] = ov
			entryVars[nm+"0"] = ov
		}
	}
	env := fr.specEnv(fr.st)
	env.vars = entryVars
	env.pre = pre
	for i, inv := range spec.Invariants {
		g := fr.evalClause(env, inv)
		if g != nil {
			fr.oblige("invariant-entry", fmt.Sprintf("loop%d.%s", ord, clauseLabel(inv, i)), inv.Text, head.Instrs[0].Pos(), g)
		}
	}
	// 2. havoc
	menv := fr.specEnv(pre)
	menv.vars = entryVars
	for _, mc := range spec.Modifies {
		for _, x := range mc.Exprs {
			locs := fr.evalLocs(menv, x, mc)
			ls.mods = append(ls.mods, locs...)
		}
	}
	for _, m := range ls.mods {
		fr.cx.havocLoc(fr.st, m)
	}
	// local variables (allocations made before the loop) that the loop body writes or hands out
	for _, al := range fr.localsWrittenInLoop(head) {
		if v, ok := fr.vals[al]; ok && v.t != nil {
			el := al.Type().Underlying().(*types.Pointer).Elem()
			m := ModLoc{loc: v.t, typ: el, text: "local " + al.Comment}
			ls.mods = append(ls.mods, m)
			fr.cx.havocLoc(fr.st, m)
		}
	}
	{
		body := loopBlocks(head)
		for blk := range body {
			for _, ins := range blk.Instrs {
				nx, ok := ins.(*ssa.Next)
				if !ok {
					continue
				}
				rg, ok := nx.Iter.(*ssa.Range)
				if !ok || body[rg.Block()] {
					continue
				}
				if v, ok := fr.vals[rg]; ok && v.iter != nil && v.iter.vis != nil {
					it := v.iter
					ks := fr.w().sortOf(it.mt.Key())
					vh := fr.st.heap(fr.cx, it.visHeap)
					fr.st.set(it.visHeap, b.Name(it.visHeap, b.Store(vh, it.vis, b.Const("visited", SArray(ks, SBool)))))
				}
			}
		}
	}
	for _, p := range phis {
		s := fr.w().sortOf(p.Type())
		v := Val{t: b.Const(p.Name()+"_"+phiSourceName(p), s), typ: p.Type(), fn: phiOutside[p].fn}
		fr.assume(fr.cx.typeInv(v.t, p.Type()))
		fr.vals[p] = v
		ls.phis[p] = v
	}
	for _, p := range phis {
		if phiSourceName(p) == "rangeindex" {
			// the hidden index of a range loop starts at -1 and only counts up to a length
			fr.assume(b.And(b.BVCmp("bvsge", fr.vals[p].t, b.BV(^uint64(0), 64)), b.BVCmp("bvslt", fr.vals[p].t, b.BV(1<<62, 64))))
		}
	}
	ls.headSt = fr.st.clone()
	ls.reach = fr.reach
	// 3. assume invariant
	vars := map[string]Val{}
	for k, v := range fr.specEnv(fr.st).vars {
		vars[k] = v
	}
	for _, p := range phis {
		if nm := phiSourceName(p); nm != "" {
			vars[nm] = fr.vals[p]
		}
	}
	for _, p := range phis {
		if nm := phiSourceName(p); nm != "" {
			vars[nm+"0"] = phiOutside[p]
		}
	}
	ls.entryVars = vars
	env2 := fr.specEnv(fr.st)
	env2.vars = vars
	env2.pre = pre
	for _, inv := range spec.Invariants {
		if g := fr.evalClause(env2, inv); g != nil {
			fr.assume(g)
		}
	}
	return true
}

// loopBlocks returns the natural loop of header head.
func loopBlocks(head *ssa.BasicBlock) map[*ssa.BasicBlock]bool {
	body := map[*ssa.BasicBlock]bool{head: true}
	var stack []*ssa.BasicBlock
	for _, p := range head.Preds {
		if head.Dominates(p) {
			stack = append(stack, p)
		}
	}
	for len(stack) > 0 {
		x := stack[len(stack)-1]
		stack = stack[:len(stack)-1]
		if body[x] {
			continue
		}
		body[x] = true
		for _, p := range x.Preds {
			stack = append(stack, p)
		}
	}
	return body
}

func baseAlloc(v ssa.Value) *ssa.Alloc {
	for depth := 0; depth < 16; depth++ {
		switch x := v.(type) {
		case *ssa.Alloc:
			return x
		case *ssa.FieldAddr:
			v = x.X
		case *ssa.IndexAddr:
			v = x.X
		case *ssa.Slice:
			v = x.X
		case *ssa.ChangeType:
			v = x.X
		default:
			return nil
		}
	}
	return nil
}

// localsWrittenInLoop: allocations defined outside the loop that are stored to,
// or whose address is passed to a call, inside the loop.
func (fr *Frame) localsWrittenInLoop(head *ssa.BasicBlock) []*ssa.Alloc {
	body := loopBlocks(head)
	seen := map[*ssa.Alloc]bool{}
	var out []*ssa.Alloc
	add := func(v ssa.Value) {
		if al := baseAlloc(v); al != nil && !body[al.Block()] && !seen[al] {
			seen[al] = true
			out = append(out, al)
		}
	}
	for blk := range body {
		for _, ins := range blk.Instrs {
			switch x := ins.(type) {
			case *ssa.Store:
				add(x.Addr)
			case ssa.CallInstruction:
				for _, a := range x.Common().Args {
					add(a)
				}
				if mc, ok := x.Common().Value.(*ssa.MakeClosure); ok {
					for _, bv := range mc.Bindings {
						add(bv)
					}
				}
			case *ssa.MakeClosure:
				for _, bv := range x.Bindings {
					add(bv)
				}
			}
		}
	}
	sort.Slice(out, func(i, j int) bool { return out[i].Pos() < out[j].Pos() })
	return out
}

func phiSourceName(p *ssa.Phi) string {
	if p.Comment != "" {
		return p.Comment
	}
	return ""
}

func clauseLabel(c *Clause, i int) string {
	if c.Label != "" {
		return c.Label
	}
	return fmt.Sprint(i)
}

func (fr *Frame) backEdge(from, head *ssa.BasicBlock) {
	b := fr.b()
	ls := fr.loopHead[head]
	if ls == nil || ls.spec == nil {
		return
	}
	pe := fr.out[from]
	saveSt, saveReach := fr.st, fr.reach
	fr.st = pe.st
	fr.reach = b.And(pe.reach, fr.edgeCond(from, head))
	defer func() { fr.st, fr.reach = saveSt, saveReach }()
	if isFalse(fr.reach) {
		return
	}
	// index of this predecessor
	idx := -1
	for i, p := range head.Preds {
		if p == from {
			idx = i
		}
	}
	vars := map[string]Val{}
	for k, v := range fr.specEnv(fr.st).vars {
		vars[k] = v
	}
	for _, ins := range head.Instrs {
		p, ok := ins.(*ssa.Phi)
		if !ok {
			break
		}
		if nm := phiSourceName(p); nm != "" {
			vars[nm] = fr.val(p.Edges[idx])
			vars[nm+"_head"] = ls.phis[p]
			if ev, ok := ls.entryVars[nm+"0"]; ok {
				vars[nm+"0"] = ev
			}
		}
	}
	env := fr.specEnv(fr.st)
	env.vars = vars
	env.pre = ls.preSt
	env.iter = ls.headSt
	env.rets = fr.lastRets
	env.retNames = fr.lastRetNames
	for i, stp := range ls.spec.Steps {
		if g := fr.evalClause(env, stp); g != nil {
			fr.oblige("loop-step", fmt.Sprintf("loop%d.%s", ls.ordinal, clauseLabel(stp, i)), stp.Text, from.Instrs[len(from.Instrs)-1].Pos(), g)
		}
	}
	for i, inv := range ls.spec.Invariants {
		if g := fr.evalClause(env, inv); g != nil {
			fr.oblige("invariant-preserved", fmt.Sprintf("loop%d.%s", ls.ordinal, clauseLabel(inv, i)), inv.Text, from.Instrs[len(from.Instrs)-1].Pos(), g)
		}
	}
	// frame of the loop body
	fr.frameCheck(fmt.Sprintf("loop%d", ls.ordinal), ls.headSt, fr.st, ls.mods, from.Instrs[len(from.Instrs)-1].Pos())
}

type frameTo struct {
	reach *Term
	st    *State
}

// frameCheckMulti is frameCheck for several end states (one per return path):
// one obligation per heap, the conjunction over the paths.
func (fr *Frame) frameCheckMulti(label string, from *State, tos []frameTo, mods []ModLoc, p token.Pos) {
	b, w := fr.b(), fr.w()
	names := map[string]bool{}
	for _, t := range tos {
		for k := range t.st.heaps {
			names[k] = true
		}
	}
	for _, hn := range sortedKeys(names) {
		hf := from.heap(fr.cx, hn)
		differs := false
		for _, t := range tos {
			if def(t.st.heap(fr.cx, hn)) != def(hf) {
				differs = true
			}
		}
		if !differs {
			continue
		}
		srt := w.heapSort[hn]
		if arrayKeySort(srt) != SLoc {
			continue
		}
		vs := arrayValSort(srt)
		l := b.Const("frame_l", SLoc)
		var allowed []*Term
		allowed = append(allowed, fr.cx.rootIsNew(l))
		if len(w.exemptFID) > 0 {
			var ids []*Term
			for fid := range w.exemptFID {
				ids = append(ids, b.Eq(b.App("fid", SInt, l), b.Int(int64(fid))))
			}
			sort.Slice(ids, func(i, j int) bool { return ids[i].id < ids[j].id })
			allowed = append(allowed, b.And(b.mk("(_ is Fld)", SBool, l), b.Or(ids...)))
		}
		isMapHeap := strings.HasPrefix(hn, "M_") || strings.HasPrefix(hn, "MD_") || strings.HasPrefix(hn, "ML_")
		all := false
		for _, m := range mods {
			if m.all {
				all = true
				continue
			}
			if isMapHeap {
				if m.mapp != nil {
					allowed = append(allowed, b.Eq(l, m.mapp))
				}
				continue
			}
			if m.mapp != nil {
				continue
			}
			allowed = append(allowed, fr.cx.inMod(l, vs, m))
		}
		if all {
			continue
		}
		ok := b.Name("frame_allowed", b.Or(allowed...))
		var cs []*Term
		for _, t := range tos {
			ht := t.st.heap(fr.cx, hn)
			if def(ht) == def(hf) {
				continue
			}
			cs = append(cs, b.Implies(t.reach, b.Or(ok, b.Eq(b.Select(ht, l), b.Select(hf, l)))))
		}
		fr.oblige("frame", label+"."+hn, "only the locations in `modifies` change", p, b.And(cs...))
	}
}

// frameCheck emits one obligation per heap that differs between `from` and
// `to`: every location outside mods (and outside objects allocated meanwhile)
// keeps its value.
func (fr *Frame) frameCheck(label string, from, to *State, mods []ModLoc, p token.Pos) {
	b, w := fr.b(), fr.w()
	names := map[string]bool{}
	for k := range to.heaps {
		names[k] = true
	}
	for _, hn := range sortedKeys(names) {
		hf, ht := from.heap(fr.cx, hn), to.heap(fr.cx, hn)
		if def(hf) == def(ht) {
			continue
		}
		srt := w.heapSort[hn]
		if arrayKeySort(srt) != SLoc {
			continue
		}
		vs := arrayValSort(srt)
		fr.cx.skolemN++
		l := b.Const("frame_l", SLoc)
		var allowed []*Term
		allowed = append(allowed, fr.cx.rootIsNew(l))
		if len(w.exemptFID) > 0 {
			var ids []*Term
			for fid := range w.exemptFID {
				ids = append(ids, b.Eq(b.App("fid", SInt, l), b.Int(int64(fid))))
			}
			sort.Slice(ids, func(i, j int) bool { return ids[i].id < ids[j].id })
			allowed = append(allowed, b.And(b.mk("(_ is Fld)", SBool, l), b.Or(ids...)))
		}
		isMapHeap := strings.HasPrefix(hn, "M_") || strings.HasPrefix(hn, "MD_") || strings.HasPrefix(hn, "ML_")
		for _, m := range mods {
			if m.all {
				allowed = append(allowed, b.True())
				continue
			}
			if isMapHeap {
				if m.mapp != nil {
					allowed = append(allowed, b.Eq(l, m.mapp))
				}
				continue
			}
			if m.mapp != nil {
				continue
			}
			allowed = append(allowed, fr.cx.inMod(l, vs, m))
		}
		goal := b.Or(append(allowed, b.Eq(b.Select(ht, l), b.Select(hf, l)))...)
		fr.oblige("frame", label+"."+hn, "only the locations in `modifies` change", p, goal)
	}
}

func (fr *Frame) evalClause(env *SpecEnv, c *Clause) (t *Term) {
	defer func() {
		if r := recover(); r != nil {
			if se, ok := r.(specError); ok {
				fr.cx.undecide("%s:%d: cannot bind `%s`: %s", c.File, c.Line, c.Text, se.msg)
				t = nil
				return
			}
			panic(r)
		}
	}()
	return env.evalBool(c.Expr)
}

func (fr *Frame) evalLocs(env *SpecEnv, x astExpr, c *Clause) (out []ModLoc) {
	defer func() {
		if r := recover(); r != nil {
			if se, ok := r.(specError); ok {
				fr.cx.undecide("%s:%d: cannot bind modifies `%s`: %s", c.File, c.Line, c.Text, se.msg)
				out = nil
				return
			}
			panic(r)
		}
	}()
	return env.evalLocs(x)
}
