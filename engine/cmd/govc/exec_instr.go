package main

import (
	"go/ast"
	"fmt"
	"go/token"
	"go/types"
	"strings"

	"golang.org/x/tools/go/ssa"
)

// exec executes one instruction; returns true if the block ends here.
func (fr *Frame) exec(ins ssa.Instruction) bool {
	b, w := fr.b(), fr.w()
	innerSize := 0
	_ = innerSize
	switch n := ins.(type) {
	case *ssa.DebugRef:
		// x/tools v0.29 records `v := T{}` (map / slice literal) as "v is nil" followed by an anonymous
		// reference for the literal itself: give the name to the literal's value
		if n.Object() == nil && fr.pendingLit != "" {
			if _, isLit := n.Expr.(*ast.CompositeLit); isLit {
				if v, ok := fr.tryVal(n.X); ok && v.t != nil {
					v.typ = n.X.Type()
					if fr.localVars == nil {
						fr.localVars = map[string]Val{}
					}
					fr.localVars[fr.pendingLit] = v
				}
			}
			fr.pendingLit = ""
			return false
		}
		// source-level names of locals become available to loop invariants and step clauses
		if obj, ok := n.Object().(*types.Var); ok && obj != nil && !obj.IsField() && obj.Pkg() != nil && obj.Parent() != obj.Pkg().Scope() {
			if _, isParam := fr.vars[obj.Name()]; isParam && fr.isParamName(obj.Name()) {
				return false
			}
			if v, ok := fr.tryVal(n.X); ok && v.t != nil {
				if fr.localVars == nil {
					fr.localVars = map[string]Val{}
				}
				if n.IsAddr {
					if pt, ok := n.X.Type().Underlying().(*types.Pointer); ok {
						fr.localVars[obj.Name()] = Val{t: v.t, typ: pt.Elem(), isAddr: true}
					}
				} else if cur, ok := fr.localVars[obj.Name()]; ok && cur.isAddr && fr.allocNames[obj.Name()] {
					// the variable lives in an allocation (its address is taken): keep naming the cell, not this value
				} else {
					v.typ = n.X.Type()
					if c, isConst := n.X.(*ssa.Const); isConst && c.Value == nil {
						fr.pendingLit = obj.Name()
					}
					fr.localVars[obj.Name()] = v
				}
			}
		}
		return false
	case *ssa.Alloc:
		fr.cx.newN++
		loc := b.NewObj(fr.cx.newN)
		el := n.Type().Underlying().(*types.Pointer).Elem()
		if fr.cx.allocType == nil {
			fr.cx.allocType = map[int]types.Type{}
		}
		fr.cx.allocType[fr.cx.newN] = el
		if n.Comment != "" && n.Comment != "complit" && !strings.Contains(n.Comment, ".") {
			// address-taken local variable: invariants and step clauses refer to its cell by name
			if fr.localVars == nil {
				fr.localVars = map[string]Val{}
			}
			if fr.allocNames == nil {
				fr.allocNames = map[string]bool{}
			}
			if _, isParam := fr.vars[n.Comment]; !isParam {
				fr.localVars[n.Comment] = Val{t: loc, typ: el, isAddr: true}
				fr.allocNames[n.Comment] = true
			} else if fr.isParamName(n.Comment) {
				// a parameter that lives in a cell (captured by a closure): inside loop clauses its name
				// means the cell, name0 the value passed in (as for parameters that are loop phis)
				if fr.paramCells == nil {
					fr.paramCells = map[string]Val{}
				}
				fr.paramCells[n.Comment] = Val{t: loc, typ: el, isAddr: true}
			}
		}
		fr.zeroInit(loc, el)
		fr.vals[n] = Val{t: loc, typ: n.Type()}
	case *ssa.BinOp:
		fr.vals[n] = fr.binop(n)
	case *ssa.UnOp:
		fr.vals[n] = fr.unop(n)
	case *ssa.ChangeType:
		v := fr.val(n.X)
		fr.vals[n] = Val{t: v.t, typ: n.Type(), fn: v.fn}
	case *ssa.ChangeInterface:
		v := fr.val(n.X)
		fr.vals[n] = Val{t: v.t, typ: n.Type()}
	case *ssa.Convert:
		fr.vals[n] = fr.convert(n)
	case *ssa.MakeInterface:
		v := fr.val(n.X)
		v.typ = n.X.Type()
		if v.t.sort == SSlice {
			// boxing a slice allocates a box holding the slice header
			fr.cx.newN++
			box := b.NewObj(fr.cx.newN)
			fr.cx.store(fr.st, box, v.typ, v.t)
			fr.vals[n] = Val{t: b.Name(n.Name(), w.mkIface(b.Int(int64(w.typeID(v.typ))), box, b.BV(0, 64))), typ: n.Type()}
			break
		}
		fr.vals[n] = Val{t: b.Name(n.Name(), fr.cx.box(v)), typ: n.Type()}
	case *ssa.TypeAssert:
		fr.typeAssert(n)
	case *ssa.Extract:
		t := fr.val(n.Tuple)
		if n.Index >= len(t.tuple) {
			panic(fmt.Sprintf("extract %d of %d-tuple at %s", n.Index, len(t.tuple), fr.pos(n.Pos())))
		}
		fr.vals[n] = t.tuple[n.Index]
	case *ssa.FieldAddr:
		x := fr.val(n.X)
		st := n.X.Type().Underlying().(*types.Pointer).Elem()
		si := w.structInfo(st)
		fr.safety("nil-deref:"+si.Fields[n.Field].Name, n.Pos(), b.Not(b.IsNil(x.t)))
		fr.vals[n] = Val{t: b.Fld(x.t, si.Fields[n.Field].FID), typ: n.Type()}
	case *ssa.Field:
		x := fr.val(n.X)
		si := w.structInfo(n.X.Type())
		fr.vals[n] = Val{t: w.structField(si, x.t, n.Field), typ: n.Type()}
	case *ssa.IndexAddr:
		x := fr.val(n.X)
		idx := fr.val(n.Index)
		i := b.Resize(idx.t, 64, isSigned(idx.typ))
		switch u := n.X.Type().Underlying().(type) {
		case *types.Slice:
			fr.safety("index", n.Pos(), b.BVCmp("bvult", i, w.slen(x.t)))
			fr.vals[n] = Val{t: b.Elem(w.sbase(x.t), b.BVOp("bvadd", w.soff(x.t), i)), typ: n.Type()}
		case *types.Pointer:
			at := u.Elem().Underlying().(*types.Array)
			fr.safety("nil-deref", n.Pos(), b.Not(b.IsNil(x.t)))
			fr.safety("index", n.Pos(), b.BVCmp("bvult", i, b.BV(uint64(at.Len()), 64)))
			fr.vals[n] = Val{t: b.Elem(x.t, i), typ: n.Type()}
		default:
			panic("IndexAddr on " + n.X.Type().String())
		}
	case *ssa.Index:
		x := fr.val(n.X)
		idx := fr.val(n.Index)
		i := b.Resize(idx.t, 64, isSigned(idx.typ))
		switch u := n.X.Type().Underlying().(type) {
		case *types.Array:
			fr.safety("index", n.Pos(), b.BVCmp("bvult", i, b.BV(uint64(u.Len()), 64)))
			fr.vals[n] = Val{t: b.Select(x.t, i), typ: n.Type()}
		default:
			// string indexing: abstracted
			fr.vals[n] = Val{t: b.Const("stridx", w.sortOf(n.Type())), typ: n.Type()}
		}
	case *ssa.Slice:
		fr.slice(n)
	case *ssa.MakeSlice:
		ln := fr.val(n.Len)
		cp := fr.val(n.Cap)
		l := b.Resize(ln.t, 64, isSigned(ln.typ))
		c := b.Resize(cp.t, 64, isSigned(cp.typ))
		fr.safety("make-len", n.Pos(), b.And(b.BVCmp("bvsge", l, b.BV(0, 64)), b.BVCmp("bvsle", l, c), b.BVCmp("bvslt", c, b.BV(1<<62, 64))))
		fr.cx.newN++
		fr.cx.dynAlloc = true
		base := b.NewObj(fr.cx.newN)
		el := n.Type().Underlying().(*types.Slice).Elem()
		fr.needZeroAxioms(el)
		fr.vals[n] = Val{t: b.Name(n.Name(), w.mkSlice(base, b.BV(0, 64), l, c)), typ: n.Type()}
	case *ssa.MakeMap:
		fr.cx.dynAlloc = true
		fr.cx.newN++
		loc := b.NewObj(fr.cx.newN)
		mt := n.Type().Underlying().(*types.Map)
		valH, domH, lnH := w.mapHeapNames(mt)
		ks := w.sortOf(mt.Key())
		fr.st.set(domH, b.Name(domH, b.Store(fr.st.heap(fr.cx, domH), loc, b.ConstArray(SArray(ks, SBool), b.False()))))
		fr.st.set(lnH, b.Name(lnH, b.Store(fr.st.heap(fr.cx, lnH), loc, b.BV(0, 64))))
		_ = valH
		fr.vals[n] = Val{t: loc, typ: n.Type()}
	case *ssa.MakeClosure:
		fn := n.Fn.(*ssa.Function)
		var binds []Val
		for _, bv := range n.Bindings {
			binds = append(binds, fr.val(bv))
		}
		fr.vals[n] = Val{t: b.Int(int64(w.funcID(fn))), typ: n.Type(), fn: &FuncVal{fn: fn, bindings: binds}}
	case *ssa.Store:
		addr := fr.val(n.Addr)
		v := fr.val(n.Val)
		fr.safety("nil-deref:store", n.Pos(), b.Not(b.IsNil(addr.t)))
		fr.checkGuard(addr.t, n.Val.Type(), n.Pos(), "store")
		fr.cx.store(fr.st, addr.t, n.Val.Type(), v.t)
		if locCtor(def(addr.t)) != "New" { // storing into a plain local does not publish the value
			fr.cx.noteEscape(v.t)
		}
		if v.fn != nil {
			for _, bv := range v.fn.bindings {
				fr.cx.noteEscape(bv.t)
			}
		}
		if v.fn != nil {
			fr.cx.noteFuncStore(addr.t, v.fn)
		}
	case *ssa.MapUpdate:
		fr.mapUpdate(n)
	case *ssa.Lookup:
		fr.lookup(n)
	case *ssa.Range:
		x := fr.val(n.X)
		mt, ok := n.X.Type().Underlying().(*types.Map)
		if !ok {
			fr.cx.undecide("range over string in %s", fr.fn)
			fr.reach = b.False()
			return true
		}
		fr.cx.newN++
		vloc := b.NewObj(fr.cx.newN)
		ks := w.sortOf(mt.Key())
		vh := w.heapName(SArray(ks, SBool))
		fr.st.set(vh, b.Name(vh, b.Store(fr.st.heap(fr.cx, vh), vloc, b.ConstArray(SArray(ks, SBool), b.False()))))
		fr.cx.newN++
		cloc := b.NewObj(fr.cx.newN)
		ch := w.heapName(SBV(64))
		fr.st.set(ch, b.Name(ch, b.Store(fr.st.heap(fr.cx, ch), cloc, b.BV(0, 64))))
		_, _, lnH0 := w.mapHeapNames(mt)
		len0 := b.Name("rangelen", b.Ite(b.IsNil(x.t), b.BV(0, 64), b.Select(fr.st.heap(fr.cx, lnH0), x.t)))
		it := &MapIter{m: x, mt: mt, vis: vloc, visHeap: vh, cnt: cloc, len0: len0}
		fr.ranges = append(fr.ranges, it)
		fr.rangeOf = append(fr.rangeOf, n)
		fr.vals[n] = Val{typ: n.Type(), iter: it}
	case *ssa.Next:
		fr.next(n)
	case *ssa.Call:
		res := fr.call(n.Common(), n.Pos(), n)
		switch len(res) {
		case 0:
			fr.vals[n] = Val{typ: n.Type()}
		case 1:
			fr.vals[n] = res[0]
		default:
			fr.vals[n] = Val{tuple: res, typ: n.Type()}
		}
		if isFalse(fr.reach) {
			return true
		}
	case *ssa.Defer:
		d := &deferRec{instr: n, reach: fr.reach}
		for _, a := range n.Call.Args {
			d.args = append(d.args, fr.val(a))
		}
		if !n.Call.IsInvoke() {
			d.fnv = fr.val(n.Call.Value)
		} else {
			d.fnv = fr.val(n.Call.Value)
		}
		fr.defers = append(fr.defers, d)
	case *ssa.RunDefers:
		fr.runDefersAt(n.Block())
		if isFalse(fr.reach) {
			return true
		}
	case *ssa.Go:
		fr.cx.trust(fmt.Sprintf("go statement at %s abstracted: the started goroutine is verified separately, its interleaving is not modelled", fr.pos(n.Pos())))
	case *ssa.Return:
		var rs []Val
		for _, r := range n.Results {
			v := fr.val(r)
			v.typ = r.Type()
			rs = append(rs, v)
		}
		rr := &retRec{reach: fr.reach, results: rs, st: fr.st, blk: n.Block()}
		// a return inside a loop with invariant: iter(e) in postconditions is the value at the head of that (last) iteration
		var inner *loopState
		var innerHead *ssa.BasicBlock
		for h, ls := range fr.loopHead {
			if ls == nil || ls.unroll || ls.headSt == nil || !h.Dominates(n.Block()) {
				continue
			}
			// innermost: the head that all other candidates dominate
			if inner == nil || innerHead.Dominates(h) {
				inner, innerHead = ls, h
			}
		}
		if inner != nil {
			rr.iterSt = inner.headSt
			rr.iterVars = inner.entryVars
		}
		fr.rets = append(fr.rets, rr)
		return true
	case *ssa.Panic:
		fr.safety("panic", n.Pos(), b.False())
		fr.reach = b.False()
		return true
	case *ssa.If, *ssa.Jump:
		return false
	case *ssa.Select, *ssa.Send, *ssa.MakeChan:
		fr.cx.undecide("channel operation in %s (outside the verified subset)", fr.fn)
		fr.reach = b.False()
		return true
	default:
		fr.cx.undecide("unsupported instruction %T in %s", ins, fr.fn)
		fr.reach = b.False()
		return true
	}
	return false
}

func (fr *Frame) needZeroAxioms(el types.Type) {
	sorts := map[Sort]bool{}
	fr.cx.leafSorts(el, sorts)
	for s := range sorts {
		fr.cx.axiomsFor[fr.w().heapName(s)] = true
		fr.cx.initHeap(fr.w().heapName(s))
	}
}

func (fr *Frame) zeroInit(loc *Term, t types.Type) {
	if ov, ok := overlayOf(t); ok {
		fr.zeroInit(fr.b().Elem(loc, fr.b().BV(0, 64)), ov)
		return
	}
	if fr.cx.enumerable(t) {
		fr.cx.store(fr.st, loc, t, fr.w().zero(t))
		// ghost fields start at zero too
		fr.zeroGhosts(loc, t)
		return
	}
	// large arrays: rely on the fresh-object axioms for element cells
	b := fr.b()
	switch u := t.Underlying().(type) {
	case *types.Struct:
		si := fr.w().structInfo(t)
		for _, f := range si.Fields {
			fr.zeroInit(b.Fld(loc, f.FID), f.Type)
		}
		fr.zeroGhosts(loc, t)
	case *types.Array:
		// cells Elem(New k, i): covered by axioms on the initial heap
		fr.needZeroAxioms(u.Elem())
	}
}

func (fr *Frame) zeroGhosts(loc *Term, t types.Type) {
	if _, ok := t.Underlying().(*types.Struct); !ok || !isStructType(t) {
		return
	}
	b := fr.b()
	si := fr.w().structInfo(t)
	for _, g := range si.Ghosts {
		fr.cx.store(fr.st, b.Fld(loc, g.FID), g.Type, fr.w().zero(g.Type))
	}
	for _, f := range si.Fields {
		if isStructType(f.Type) {
			fr.zeroGhosts(b.Fld(loc, f.FID), f.Type)
		}
	}
}

func isStructType(t types.Type) bool {
	if isPageSet(t) {
		return false
	}
	if _, ok := opaqueLE(t); ok {
		return false
	}
	if _, ok := overlayOf(t); ok {
		return false
	}
	_, ok := t.Underlying().(*types.Struct)
	return ok
}

func (fr *Frame) binop(n *ssa.BinOp) Val {
	b, w := fr.b(), fr.w()
	x, y := fr.val(n.X), fr.val(n.Y)
	xt := n.X.Type()
	boolT := types.Typ[types.Bool]
	res := func(t *Term) Val { return Val{t: b.Name(n.Name(), t), typ: n.Type()} }
	// comparisons on non-numeric sorts
	if n.Op == token.EQL || n.Op == token.NEQ {
		var eq *Term
		switch {
		case x.t.sort == SSlice:
			// only comparison with nil is legal
			eq = b.Eq(b.IsNil(w.sbase(x.t)), b.IsNil(w.sbase(y.t)))
		case x.t.sort == SIface:
			// interface equality: nil-ness decided by the type word
			xn := b.Eq(w.itype(x.t), b.Int(0))
			yn := b.Eq(w.itype(y.t), b.Int(0))
			if isTrue(xn) || isTrue(yn) {
				eq = b.Eq(xn, yn)
			} else {
				eq = b.Or(b.And(xn, yn), b.And(b.Not(xn), b.Not(yn), b.Eq(x.t, y.t)))
			}
		default:
			eq = b.Eq(x.t, y.t)
		}
		if n.Op == token.NEQ {
			eq = b.Not(eq)
		}
		_ = boolT
		return res(eq)
	}
	if x.t.sort == SReal || y.t.sort == SReal {
		// floating point: results are not modelled
		fr.cx.trust("floating point operations yield arbitrary results (both outcomes of comparisons are explored)")
		return Val{t: b.Const("fp", w.sortOf(n.Type())), typ: n.Type()}
	}
	if x.t.sort == SStr && n.Op == token.ADD {
		return Val{t: b.Const("strcat", SStr), typ: n.Type()}
	}
	signed := isSigned(xt)
	bits, isBV := x.t.sort.IsBV()
	if !isBV {
		if x.t.sort == SBool {
			switch n.Op {
			case token.AND:
				return res(b.And(x.t, y.t))
			case token.OR:
				return res(b.Or(x.t, y.t))
			}
		}
		panic(fmt.Sprintf("binop %s on sort %s at %s", n.Op, x.t.sort, fr.pos(n.Pos())))
	}
	switch n.Op {
	case token.ADD:
		return res(b.BVOp("bvadd", x.t, y.t))
	case token.SUB:
		return res(b.BVOp("bvsub", x.t, y.t))
	case token.MUL:
		return res(b.BVOp("bvmul", x.t, y.t))
	case token.QUO, token.REM:
		fr.safety("div-zero", n.Pos(), b.Neq(y.t, b.BV(0, bits)))
		op := map[bool]map[token.Token]string{
			true:  {token.QUO: "bvsdiv", token.REM: "bvsrem"},
			false: {token.QUO: "bvudiv", token.REM: "bvurem"},
		}[signed][n.Op]
		if !signed {
			return res(fr.cx.udivrem(n.Op == token.REM, x.t, y.t))
		}
		return res(b.BVOp(op, x.t, y.t))
	case token.AND:
		return res(b.BVOp("bvand", x.t, y.t))
	case token.OR:
		return res(b.BVOp("bvor", x.t, y.t))
	case token.XOR:
		return res(b.BVOp("bvxor", x.t, y.t))
	case token.AND_NOT:
		return res(b.BVOp("bvand", x.t, b.BVNot(y.t)))
	case token.SHL, token.SHR:
		yb, _ := y.t.sort.IsBV()
		var sh *Term
		if yb > bits {
			// a shift count >= width yields 0 (or sign fill): saturate
			big := b.BVCmp("bvuge", y.t, b.BV(uint64(bits), yb))
			sh = b.Ite(big, b.BV(uint64(bits), bits), b.Resize(y.t, bits, false))
		} else {
			sh = b.Resize(y.t, bits, false)
		}
		if isSigned(n.Y.Type()) {
			fr.safety("shift-negative", n.Pos(), b.BVCmp("bvsge", y.t, b.BV(0, yb)))
		}
		op := "bvshl"
		if n.Op == token.SHR {
			op = "bvlshr"
			if signed {
				op = "bvashr"
			}
		}
		return res(b.BVOp(op, x.t, sh))
	case token.LSS, token.LEQ, token.GTR, token.GEQ:
		ops := map[token.Token][2]string{
			token.LSS: {"bvult", "bvslt"}, token.LEQ: {"bvule", "bvsle"},
			token.GTR: {"bvugt", "bvsgt"}, token.GEQ: {"bvuge", "bvsge"},
		}[n.Op]
		if signed {
			return res(b.BVCmp(ops[1], x.t, y.t))
		}
		return res(b.BVCmp(ops[0], x.t, y.t))
	}
	panic("unsupported binop " + n.Op.String())
}

func (fr *Frame) unop(n *ssa.UnOp) Val {
	b := fr.b()
	x := fr.val(n.X)
	switch n.Op {
	case token.MUL: // load
		fr.safety("nil-deref:load", n.Pos(), b.Not(b.IsNil(x.t)))
		v := fr.cx.load(fr.st, x.t, n.Type())
		r := Val{t: b.Name(n.Name(), v), typ: n.Type()}
		if inv := fr.cx.typeInv(r.t, n.Type()); !isTrue(inv) {
			fr.assume(inv) // every stored value satisfies the invariant of its type
		}
		if len(fr.w().fieldAssume) > 0 {
			if d := def(x.t); locCtor(d) == "Fld" {
				var fid int
				fmt.Sscan(d.args[1].op, &fid)
				if bg := fr.w().fieldAssume[fid]; bg != nil {
					env := &SpecEnv{cx: fr.cx, pkg: bg.pkg, vars: map[string]Val{"self": {t: d.args[0], typ: types.NewPointer(bg.structT)}}, cur: fr.st, old: fr.entry}
					if g := fr.evalClause(env, bg.g.Cond); g != nil {
						fr.assume(g)
						fr.cx.trust("modelling bound assumed on every read of " + bg.g.TypeName + "." + bg.g.Field + ": " + bg.g.Cond.Text)
					}
				}
			}
		}
		if r.t.sort == SFunc {
			r.fn = fr.cx.funcAt(x.t)
		}
		return r
	case token.NOT:
		return Val{t: b.Not(x.t), typ: n.Type()}
	case token.SUB:
		if x.t.sort == SReal {
			return Val{t: b.Const("fp", SReal), typ: n.Type()}
		}
		return Val{t: b.BVNeg(x.t), typ: n.Type()}
	case token.XOR:
		return Val{t: b.BVNot(x.t), typ: n.Type()}
	case token.ARROW:
		fr.cx.undecide("channel receive in %s", fr.fn)
		return Val{t: b.Const("recv", fr.w().sortOf(n.Type())), typ: n.Type()}
	}
	panic("unsupported unop " + n.Op.String())
}

func (fr *Frame) convert(n *ssa.Convert) Val {
	b, w := fr.b(), fr.w()
	x := fr.val(n.X)
	from, to := n.X.Type(), n.Type()
	ts := w.sortOf(to)
	if fb, ok := x.t.sort.IsBV(); ok {
		if tb, ok := ts.IsBV(); ok {
			_ = fb
			return Val{t: b.Name(n.Name(), b.Resize(x.t, tb, isSigned(from))), typ: to}
		}
	}
	if x.t.sort == ts && ts == SLoc {
		return Val{t: x.t, typ: to}
	}
	if ts == SLoc || x.t.sort == SLoc {
		// uintptr <-> unsafe.Pointer: not modelled
		fr.cx.trust("unsafe pointer/integer conversion yields an arbitrary value")
		return Val{t: b.Const("conv", ts), typ: to}
	}
	// strings, floats
	if ts == SReal || x.t.sort == SReal {
		fr.cx.trust("floating point operations yield arbitrary results (both outcomes of comparisons are explored)")
	}
	v := b.Const("conv", ts)
	fr.assume(fr.cx.typeInv(v, to))
	return Val{t: v, typ: to}
}

func (fr *Frame) typeAssert(n *ssa.TypeAssert) {
	b, w := fr.b(), fr.w()
	x := fr.val(n.X)
	at := n.AssertedType
	var ok *Term
	var v Val
	if _, isIface := at.Underlying().(*types.Interface); isIface {
		ok = b.Neq(w.itype(x.t), b.Int(0))
		v = Val{t: x.t, typ: at}
		if !n.CommaOk {
			fr.cx.trust("interface-to-interface type assertion: dynamic type assumed to implement the asserted interface when non-nil")
		}
	} else {
		ok = b.Eq(w.itype(x.t), b.Int(int64(w.typeID(at))))
		v = fr.cx.unboxSt(fr.st, x.t, at)
	}
	if n.CommaOk {
		zero := w.zero(at)
		fr.vals[n] = Val{typ: n.Type(), tuple: []Val{
			{t: b.Ite(ok, v.t, zero), typ: at},
			{t: ok, typ: types.Typ[types.Bool]},
		}}
		return
	}
	fr.safety("type-assert", n.Pos(), ok)
	fr.vals[n] = Val{t: v.t, typ: at}
}

func (fr *Frame) slice(n *ssa.Slice) {
	b, w := fr.b(), fr.w()
	x := fr.val(n.X)
	z := b.BV(0, 64)
	var base, off, ln, cp *Term
	switch u := n.X.Type().Underlying().(type) {
	case *types.Slice:
		base, off, ln, cp = w.sbase(x.t), w.soff(x.t), w.slen(x.t), w.scap(x.t)
	case *types.Pointer:
		at := u.Elem().Underlying().(*types.Array)
		fr.safety("nil-deref", n.Pos(), b.Not(b.IsNil(x.t)))
		base, off = x.t, z
		ln = b.BV(uint64(at.Len()), 64)
		cp = ln
	default:
		// strings
		fr.vals[n] = Val{t: b.Const("substr", SStr), typ: n.Type()}
		return
	}
	lo, hi, mx := z, ln, cp
	if n.Low != nil {
		v := fr.val(n.Low)
		lo = b.Resize(v.t, 64, isSigned(v.typ))
	}
	if n.High != nil {
		v := fr.val(n.High)
		hi = b.Resize(v.t, 64, isSigned(v.typ))
	}
	if n.Max != nil {
		v := fr.val(n.Max)
		mx = b.Resize(v.t, 64, isSigned(v.typ))
	}
	// 0 <= lo <= hi <= max <= cap   (unsigned comparisons catch negatives)
	goal := b.And(b.BVCmp("bvule", lo, hi), b.BVCmp("bvule", hi, mx), b.BVCmp("bvule", mx, cp))
	fr.safety("slice-bounds", n.Pos(), goal)
	res := w.mkSlice(base, b.BVOp("bvadd", off, lo), b.BVOp("bvsub", hi, lo), b.BVOp("bvsub", mx, lo))
	fr.vals[n] = Val{t: b.Name(n.Name(), res), typ: n.Type()}
}

func (fr *Frame) mapUpdate(n *ssa.MapUpdate) {
	b, w := fr.b(), fr.w()
	m := fr.val(n.Map)
	k := fr.val(n.Key)
	v := fr.val(n.Value)
	mt := n.Map.Type().Underlying().(*types.Map)
	fr.safety("nil-map", n.Pos(), b.Not(b.IsNil(m.t)))
	valH, domH, lnH := w.mapHeapNames(mt)
	vs := w.mapValSort(mt)
	val := v.t
	if vs == SBool && v.t.sort != SBool {
		val = b.True()
	}
	hv, hd, hl := fr.st.heap(fr.cx, valH), fr.st.heap(fr.cx, domH), fr.st.heap(fr.cx, lnH)
	mv, md, ml := b.Select(hv, m.t), b.Select(hd, m.t), b.Select(hl, m.t)
	had := b.Select(md, k.t)
	fr.st.set(valH, b.Name(valH, b.Store(hv, m.t, b.Store(mv, k.t, val))))
	fr.st.set(domH, b.Name(domH, b.Store(hd, m.t, b.Store(md, k.t, b.True()))))
	fr.st.set(lnH, b.Name(lnH, b.Store(hl, m.t, b.Ite(had, ml, b.BVOp("bvadd", ml, b.BV(1, 64))))))
}

func (fr *Frame) mapDelete(m Val, mt *types.Map, k Val) {
	b, w := fr.b(), fr.w()
	_, domH, lnH := w.mapHeapNames(mt)
	hd, hl := fr.st.heap(fr.cx, domH), fr.st.heap(fr.cx, lnH)
	md, ml := b.Select(hd, m.t), b.Select(hl, m.t)
	had := b.Select(md, k.t)
	notNil := b.Not(b.IsNil(m.t))
	fr.st.set(domH, b.Name(domH, b.Ite(notNil, b.Store(hd, m.t, b.Store(md, k.t, b.False())), hd)))
	fr.st.set(lnH, b.Name(lnH, b.Ite(b.And(notNil, had), b.Store(hl, m.t, b.BVOp("bvsub", ml, b.BV(1, 64))), hl)))
}

func (fr *Frame) lookup(n *ssa.Lookup) {
	b, w := fr.b(), fr.w()
	x := fr.val(n.X)
	k := fr.val(n.Index)
	mt, ok := n.X.Type().Underlying().(*types.Map)
	if !ok {
		fr.vals[n] = Val{t: b.Const("stridx", w.sortOf(n.Type())), typ: n.Type()}
		return
	}
	valH, domH, _ := w.mapHeapNames(mt)
	vs := w.mapValSort(mt)
	mv, md := b.Select(fr.st.heap(fr.cx, valH), x.t), b.Select(fr.st.heap(fr.cx, domH), x.t)
	present := b.And(b.Not(b.IsNil(x.t)), b.Select(md, k.t))
	var val *Term
	if vs == SBool && w.sortOf(mt.Elem()) != SBool {
		val = w.zero(mt.Elem())
	} else {
		val = b.Ite(present, b.Select(mv, k.t), w.zero(mt.Elem()))
	}
	if n.CommaOk {
		fr.vals[n] = Val{typ: n.Type(), tuple: []Val{{t: b.Name(n.Name(), val), typ: mt.Elem()}, {t: present, typ: types.Typ[types.Bool]}}}
		return
	}
	fr.vals[n] = Val{t: b.Name(n.Name(), val), typ: mt.Elem()}
}

// next models one step of a map iteration: an arbitrary present key.
func (fr *Frame) next(n *ssa.Next) {
	b, w := fr.b(), fr.w()
	it := fr.val(n.Iter).iter
	if it == nil {
		fr.cx.undecide("next on unsupported iterator in %s", fr.fn)
		fr.reach = b.False()
		return
	}
	mt := it.mt
	valH, domH, lnH := w.mapHeapNames(mt)
	ks := w.sortOf(mt.Key())
	ok := b.Const("it_ok", SBool)
	k := b.Const("it_k", ks)
	md := b.Select(fr.st.heap(fr.cx, domH), it.m.t)
	mv := b.Select(fr.st.heap(fr.cx, valH), it.m.t)
	ml := b.Select(fr.st.heap(fr.cx, lnH), it.m.t)
	notNil := b.Not(b.IsNil(it.m.t))
	fr.assume(b.Implies(ok, b.And(notNil, b.Select(md, k))))
	if it.vis != nil {
		vh := fr.st.heap(fr.cx, it.visHeap)
		vis := b.Select(vh, it.vis)
		// a produced key is new; when the iteration ends every present key has been produced
		fr.assume(b.Implies(ok, b.Not(b.Select(vis, k))))
		kn := fmt.Sprintf("k?%d", fr.cx.nextBound())
		kv := b.BVar(kn, ks)
		if !rangeBodyInserts(n) {
			fr.assume(b.Implies(b.And(b.Not(ok), notNil), b.Forall([]BoundVar{{kn, ks}}, b.Implies(b.Select(md, kv), b.Select(vis, kv)), b.Select(md, kv))))
			fr.cx.trust("map iteration produces every key present at its end exactly once (no insertion into the ranged map through an alias)")
		}
		nv := b.Ite(ok, b.Store(vis, k, b.True()), vis)
		fr.st.set(it.visHeap, b.Name(it.visHeap, b.Store(vh, it.vis, nv)))
		if it.cnt != nil {
			ch := w.heapName(SBV(64))
			h := fr.st.heap(fr.cx, ch)
			c := b.Select(h, it.cnt)
			if !rangeBodyInserts(n) {
				// without insertions an iteration produces at most as many keys as the map held at its start
				fr.assume(b.Implies(ok, b.BVCmp("bvslt", c, it.len0)))
			}
			fr.assume(b.And(b.BVCmp("bvsge", c, b.BV(0, 64)), b.BVCmp("bvslt", c, b.BV(1<<62, 64))))
			fr.st.set(ch, b.Name(ch, b.Store(h, it.cnt, b.Ite(ok, b.BVOp("bvadd", c, b.BV(1, 64)), c))))
		}
	}
	// an empty or nil map yields nothing
	fr.assume(b.Implies(b.Or(b.Not(notNil), b.Eq(ml, b.BV(0, 64))), b.Not(ok)))
	var v *Term
	vs := w.mapValSort(mt)
	if vs == SBool && w.sortOf(mt.Elem()) != SBool {
		v = w.zero(mt.Elem())
	} else {
		v = b.Select(mv, k)
	}
	fr.vals[n] = Val{typ: n.Type(), tuple: []Val{
		{t: ok, typ: types.Typ[types.Bool]},
		{t: k, typ: mt.Key()},
		{t: b.Name("it_v", v), typ: mt.Elem()},
	}}
}

// rangeBodyInserts: does the loop driven by this Next insert into the ranged map (syntactically)?
func rangeBodyInserts(n *ssa.Next) bool {
	rg, ok := n.Iter.(*ssa.Range)
	if !ok {
		return true
	}
	for _, blk := range n.Parent().Blocks {
		for _, ins := range blk.Instrs {
			if mu, ok := ins.(*ssa.MapUpdate); ok {
				if mu.Map == rg.X {
					return true
				}
				if l1, ok1 := mu.Map.(*ssa.UnOp); ok1 {
					if l2, ok2 := rg.X.(*ssa.UnOp); ok2 && sameAddr(l1.X, l2.X) {
						return true
					}
				}
			}
		}
	}
	return false
}

func sameAddr(a, b ssa.Value) bool {
	if a == b {
		return true
	}
	fa, ok1 := a.(*ssa.FieldAddr)
	fb, ok2 := b.(*ssa.FieldAddr)
	if ok1 && ok2 {
		return fa.Field == fb.Field && sameAddr(fa.X, fb.X)
	}
	return false
}

func describeCallee(c *ssa.CallCommon) string {
	if c.IsInvoke() {
		return c.Value.Type().String() + "." + c.Method.Name()
	}
	if f := c.StaticCallee(); f != nil {
		return f.String()
	}
	return strings.TrimSpace(c.Value.String())
}
