package main

import (
	"fmt"
	"go/parser"
	"go/token"
	"go/types"
	"strings"

	"golang.org/x/tools/go/ssa"
)

func parserParseExpr(s string) (astExpr, error) { return parser.ParseExpr(s) }

func (cx *Ctx) noteFuncStore(addr *Term, fv *FuncVal) {
	if cx.funcCells == nil {
		cx.funcCells = map[int]*FuncVal{}
	}
	cx.funcCells[def(addr).id] = fv
}

func (cx *Ctx) funcAt(addr *Term) *FuncVal {
	if cx.funcCells == nil {
		return nil
	}
	return cx.funcCells[def(addr).id]
}

// intrinsic gives exact models for a few external functions (trusted base T2).
func (fr *Frame) intrinsic(fn *ssa.Function, args []Val, p token.Pos) ([]Val, bool) {
	b, w := fr.b(), fr.w()
	name := fn.String()
	// go-bin little-endian cells: Get / Set / Len on an opaque leaf
	if fn.Pkg != nil && fn.Pkg.Pkg.Path() == "github.com/urso/go-bin" && fn.Signature.Recv() != nil {
		rt := fn.Signature.Recv().Type()
		if pt, ok := rt.(*types.Pointer); ok {
			if bits, ok := opaqueLE(pt.Elem()); ok {
				fr.cx.trust("go-bin fixed-width cells (U8le..U64le, pgID) are modelled as one little-endian integer leaf; Get/Set/Len as load/store/size")
				switch fn.Name() {
				case "Get":
					fr.safety("nil-deref", p, b.Not(b.IsNil(args[0].t)))
					v := fr.cx.load(fr.st, args[0].t, pt.Elem())
					return []Val{{t: v, typ: fn.Signature.Results().At(0).Type()}}, true
				case "Set":
					fr.safety("nil-deref", p, b.Not(b.IsNil(args[0].t)))
					fr.cx.store(fr.st, args[0].t, pt.Elem(), args[1].t)
					return nil, true
				case "Len":
					return []Val{{t: b.BV(uint64(bits/8), 64), typ: types.Typ[types.Int]}}, true
				}
			}
		}
	}
	switch name {
	case "github.com/urso/go-bin.UnsafeCastStruct":
		fr.cx.trust("bin.UnsafeCastStruct(to, b): *to = &b[0] (nil when len(b)==0); the struct view and the byte view of the same memory are not related to each other")
		to, buf := args[0], args[1]
		cell := w.iptr(to.t)
		if it := def(w.itype(to.t)); isLit(it) {
			var id int
			fmt.Sscan(it.op, &id)
			if id >= 1 && id <= len(w.typeList) {
				if pp, ok := w.typeList[id-1].Underlying().(*types.Pointer); ok {
					if p2, ok := pp.Elem().Underlying().(*types.Pointer); ok {
						sz := types.SizesFor("gc", "amd64").Sizeof(p2.Elem())
						ln := w.slen(buf.t)
						fr.safety("cast-bounds", p, b.Or(b.Eq(ln, b.BV(0, 64)), b.BVCmp("bvsge", ln, b.BV(uint64(sz), 64))))
					}
				}
			}
		}
		ptr := b.Ite(b.Eq(w.slen(buf.t), b.BV(0, 64)), b.Nil(), b.Elem(w.sbase(buf.t), w.soff(buf.t)))
		hn := w.heapName(SLoc)
		fr.st.set(hn, b.Name(hn, b.Store(fr.st.heap(fr.cx, hn), cell, ptr)))
		return nil, true
	case "math/bits.LeadingZeros64":
		x := args[0].t
		// exact: number of leading zero bits
		res := b.BV(64, 64)
		for i := 0; i < 64; i++ {
			// if bit i is the highest set bit, result = 63-i; build from low to high so higher bits win
			bit := b.Neq(b.BVOp("bvand", x, b.BV(uint64(1)<<uint(i), 64)), b.BV(0, 64))
			res = b.Ite(bit, b.BV(uint64(63-i), 64), res)
		}
		return []Val{{t: b.Name("lz64", res), typ: types.Typ[types.Int]}}, true
	case "sync/atomic.AddUint64":
		fr.cx.trust("atomic.AddUint64 modelled as a sequential read-modify-write")
		u64 := types.Typ[types.Uint64]
		fr.safety("nil-deref", p, b.Not(b.IsNil(args[0].t)))
		nv := b.BVOp("bvadd", fr.cx.load(fr.st, args[0].t, u64), args[1].t)
		fr.cx.store(fr.st, args[0].t, u64, nv)
		return []Val{{t: nv, typ: u64}}, true
	}
	return nil, false
}

var pureExternalPkgs = map[string]bool{
	"fmt": true, "time": true, "errors": true, "strconv": true, "strings": true, "math": true,
	"github.com/elastic/go-txfile/internal/strbld": true,
	"github.com/elastic/go-txfile/txerr":           true,
}

func (e *Engine) isPureExternal(fn *ssa.Function) bool {
	if fn.Pkg == nil {
		if fn.Signature.Recv() != nil {
			// method of external type
			if n := recvNamed(fn.Signature.Recv().Type()); n != nil && n.Obj().Pkg() != nil {
				return pureExternalPkgs[n.Obj().Pkg().Path()]
			}
		}
		return false
	}
	path := fn.Pkg.Pkg.Path()
	if pureExternalPkgs[path] {
		return true
	}
	if path == "os" && fn.Name() == "Getpagesize" {
		return true
	}
	return false
}

func recvNamed(t types.Type) *types.Named {
	if p, ok := t.(*types.Pointer); ok {
		t = p.Elem()
	}
	n, _ := t.(*types.Named)
	return n
}

func (e *Engine) inModule(fn *ssa.Function) bool {
	f := fn
	for f.Pkg == nil && f.Parent() != nil {
		f = f.Parent()
	}
	if f.Pkg == nil {
		if fn.Signature.Recv() != nil {
			if n := recvNamed(fn.Signature.Recv().Type()); n != nil && n.Obj().Pkg() != nil {
				return strings.HasPrefix(n.Obj().Pkg().Path(), modulePath)
			}
		}
		return false
	}
	return strings.HasPrefix(f.Pkg.Pkg.Path(), modulePath)
}

// autoInline: in-module callees without contract are inlined when they are
// loop-free and small (helpers such as region.End, pageSet.Has, trace no-ops).
func (e *Engine) autoInline(fn *ssa.Function) bool {
	if len(fn.Blocks) == 0 {
		return false
	}
	n := 0
	for _, b := range fn.Blocks {
		n += len(b.Instrs)
		for _, s := range b.Succs {
			if s.Dominates(b) {
				return false // loop
			}
		}
	}
	return n <= 160
}
