package main

import (
	"encoding/json"
	"flag"
	"fmt"
	"os"
	"path/filepath"
	"regexp"
	"runtime"
	"sort"
	"strconv"
	"strings"
	"sync"
	"time"
)

type Options struct {
	Repo     string
	Verif    string
	Tier     string
	Seed     int
	Verbose  bool
	Dump     string
	FuncRe   string
	TimeoutS int
	NoLock   bool
	Jobs     int
	OblRe    string
	UpdLock  bool
	Fast     bool
}

func main() {
	if len(os.Args) < 2 {
		usage()
	}
	cmd := os.Args[1]
	fs := flag.NewFlagSet(cmd, flag.ExitOnError)
	var o Options
	fs.StringVar(&o.Repo, "repo", "/repo", "repository under verification")
	fs.StringVar(&o.Verif, "verif", defaultVerif(), "verification directory")
	fs.StringVar(&o.Tier, "tier", envOr("VERIF_TIER", "quick"), "quick|thorough")
	fs.BoolVar(&o.Verbose, "v", false, "verbose")
	fs.StringVar(&o.Dump, "dump", "", "directory to keep SMT queries")
	fs.StringVar(&o.FuncRe, "func", "", "only functions matching this regexp")
	fs.IntVar(&o.TimeoutS, "timeout", 0, "per-obligation solver timeout (s)")
	fs.BoolVar(&o.NoLock, "nolock", false, "do not compare with baseline lock")
	fs.BoolVar(&o.UpdLock, "update-lock", false, "maintenance: rewrite this property's entries of baseline/obligations.lock from the obligations discharged by this run")
	fs.BoolVar(&o.Fast, "fast", false, "development aid: no retry phase and no search for candidate counterexamples (failures are reported after the first attempt)")
	fs.StringVar(&o.OblRe, "obl", "", "development aid: only discharge obligations whose name matches this regexp (others are reported as skipped)")
	fs.BoolVar(&explainMode, "explain", false, "for failing obligations print the model value of each conjunct of the goal")
	fs.IntVar(&o.Jobs, "j", runtime.NumCPU(), "parallel solver jobs")
	var pos []string
	args := os.Args[2:]
	// allow flags after positionals
	for len(args) > 0 {
		if strings.HasPrefix(args[0], "-") {
			fs.Parse(args)
			args = fs.Args()
			continue
		}
		pos = append(pos, args[0])
		args = args[1:]
	}
	o.Seed, _ = strconv.Atoi(envOr("VERIF_SEED", "0"))
	currentTier = o.Tier
	if o.TimeoutS == 0 {
		o.TimeoutS = 20
		if o.Tier == "thorough" {
			o.TimeoutS = 120
		}
	}
	switch cmd {
	case "check":
		if len(pos) != 1 {
			usage()
		}
		os.Exit(cmdCheck(&o, pos[0]))
	case "func":
		if len(pos) == 1 {
			o.FuncRe = pos[0]
		}
		os.Exit(cmdCheck(&o, ""))
	case "list":
		os.Exit(cmdList(&o))
	case "lock":
		os.Exit(cmdLock(&o))
	case "replay":
		if len(pos) != 1 {
			usage()
		}
		os.Exit(cmdReplay(&o, pos[0]))
	case "selfcheck":
		os.Exit(cmdSelfcheck(&o))
	default:
		usage()
	}
}

func usage() {
	fmt.Fprintln(os.Stderr, "usage: govc check <property> [--tier quick|thorough] | func <regexp> | list | lock | replay <file> | selfcheck")
	os.Exit(2)
}

func envOr(k, d string) string {
	if v := os.Getenv(k); v != "" {
		return v
	}
	return d
}

func defaultVerif() string {
	if v := os.Getenv("VERIF_DIR"); v != "" {
		return v
	}
	exe, err := os.Executable()
	if err == nil {
		d := filepath.Dir(filepath.Dir(exe))
		if _, err := os.Stat(filepath.Join(d, "properties.jsonl")); err == nil {
			return d
		}
	}
	return "/verif"
}

type CheckRun struct {
	Prop      string
	Results   []*FuncResult
	Obls      []*Obligation
	Covers    []*Obligation
	Lemmas    []*LemmaResult
	Undecided []string
	Trusted   map[string]bool
	Start     time.Time
}

type LemmaResult struct {
	L      *Lemma
	Status string
	Solver string
	TimeS  float64
	Output string
}

func cmdList(o *Options) int {
	e, err := loadEngine(o.Repo)
	if err != nil {
		fmt.Println("load error:", err)
		return 2
	}
	for _, er := range e.cs.Errors {
		fmt.Println("contract parse error:", er)
	}
	for _, er := range e.bindErrs {
		fmt.Println("bind error:", er)
	}
	for _, bc := range e.bound {
		flags := ""
		if bc.C.Inline {
			flags += " inline"
		}
		if bc.C.Trusted != "" {
			flags += " trusted"
		}
		if bc.C.Abstract != "" {
			flags += " abstract"
		}
		fmt.Printf("%-8s %-60s %v%s\n", bc.C.Kind, bc.Short(), bc.C.Props, flags)
	}
	return 0
}

func selectContracts(e *Engine, prop string, re *regexp.Regexp) []*BoundContract {
	var out []*BoundContract
	for _, bc := range e.bound {
		if bc.C.Kind != "func" || bc.Fn == nil || bc.C.Inline || bc.C.Trusted != "" || bc.C.Abstract != "" {
			continue
		}
		if prop != "" && !contractServes(bc.C, prop) {
			continue
		}
		if re != nil && !re.MatchString(bc.Name()) {
			continue
		}
		out = append(out, bc)
	}
	return out
}

func contractServes(c *Contract, prop string) bool {
	if propsContain(c.Props, prop) {
		return true
	}
	for _, en := range c.Ensures {
		if propsContain(en.Prop, prop) {
			return true
		}
	}
	return false
}

func runCheck(o *Options, e *Engine, prop string) *CheckRun {
	run := &CheckRun{Prop: prop, Trusted: map[string]bool{}, Start: time.Now()}
	var re *regexp.Regexp
	if o.FuncRe != "" {
		re = regexp.MustCompile(o.FuncRe)
	}
	sel := selectContracts(e, prop, re)
	results := make([]*FuncResult, len(sel))
	var wg sync.WaitGroup
	sem := make(chan struct{}, o.Jobs)
	for i, bc := range sel {
		wg.Add(1)
		go func(i int, bc *BoundContract) {
			defer wg.Done()
			sem <- struct{}{}
			defer func() { <-sem }()
			results[i] = e.verifyFunc(bc)
		}(i, bc)
	}
	wg.Wait()
	run.Results = results
	for _, lm := range e.cs.Lemmas {
		if lm.File != "" || len(lm.Ensures) == 0 {
			continue
		}
		if prop != "" && !propsContain(lm.Props, prop) {
			continue
		}
		if re != nil && !re.MatchString("lemma "+lm.Name) {
			continue
		}
		results = append(results, e.verifyLemma(lm))
	}
	for _, r := range results {
		for _, ob := range r.Obls {
			if prop == "" || propsContain(ob.Props, prop) || ob.Kind != "ensures" {
				run.Obls = append(run.Obls, ob)
			}
		}
		run.Covers = append(run.Covers, r.Covers...)
		for _, u := range r.Undecided {
			if r.BC != nil {
				u = shortName(r.BC.Name()) + ": " + u
			}
			run.Undecided = append(run.Undecided, u)
		}
		for _, t := range r.Trusted {
			run.Trusted[t] = true
		}
	}
	// discharge
	dir := o.Dump
	if dir == "" {
		var err error
		dir, err = os.MkdirTemp("", "govc-")
		if err != nil {
			panic(err)
		}
		defer os.RemoveAll(dir)
	} else {
		os.MkdirAll(dir, 0o755)
	}
	all := append(append([]*Obligation{}, run.Obls...), run.Covers...)
	kfList := loadKnownFindings(o.Verif)
	var wg2 sync.WaitGroup
	var oblRe *regexp.Regexp
	if o.OblRe != "" {
		oblRe = regexp.MustCompile(o.OblRe)
	}
	for i, ob := range all {
		if ob.Trivial {
			ob.Status = "discharged"
			ob.Solver = "simplifier"
			continue
		}
		if oblRe != nil && !oblRe.MatchString(ob.Name) {
			ob.Status = "discharged"
			ob.Solver = "skipped"
			continue
		}
		wg2.Add(1)
		go func(i int, ob *Obligation) {
			defer wg2.Done()
			sem <- struct{}{}
			defer func() { <-sem }()
			q := ob.Query(true)
			var ans SolverAnswer
			timeout := o.TimeoutS
			if ob.cx.bc != nil && ob.cx.bc.C.TimeoutS > 0 {
				timeout = ob.cx.bc.C.TimeoutS
				if o.Tier == "thorough" {
					timeout *= 3
				}
			}
			if kfList.match("", ob) != nil && timeout > 6 {
				timeout = 6 // recorded finding: expected to fail, do not spend the full budget on it
			}
			if ob.FullCover {
				// vacuity sentinel: only a definite "unsat" matters
				file := filepath.Join(dir, fmt.Sprintf("q%05d.smt2", i))
				os.WriteFile(file, []byte(q), 0o644)
				ans = runOne("z3", file, 4)
				if ans.Status != "unsat" {
					a2 := runOne("z3-new", file, 3)
					if a2.Status == "unsat" || a2.Status == "sat" {
						ans = a2
					}
				}
				if ans.Status != "unsat" {
					ans.Status = "sat" // not refuted: treated as reachable
				}
			} else if ob.IsCover {
				file := filepath.Join(dir, fmt.Sprintf("q%05d.smt2", i))
				os.WriteFile(file, []byte(q), 0o644)
				ans = raceTwo(file, 8)
			} else if len(ob.cx.splits) > 0 {
				// first the unsplit query (divisions are already expanded per power of two), then case by case
				t0 := 8
				if timeout < t0 {
					t0 = timeout
				}
				ans, _ = solve(dir, fmt.Sprintf("q%05d", i), q, t0, false)
			} else {
				ans, _ = solve(dir, fmt.Sprintf("q%05d", i), q, timeout, false)
			}
			if ans.Status != "unsat" && ans.Status != "sat" && len(ob.parts) > 1 && len(ob.cx.splits) == 0 && !ob.IsCover {
				// one query per return path
				total := ans.TimeS
				allUnsat := true
				// the return paths are independent: a few at a time
				pas := make([]SolverAnswer, len(ob.parts))
				var pwg sync.WaitGroup
				psem := make(chan struct{}, 4)
				for pi := range ob.parts {
					pwg.Add(1)
					go func(pi int) {
						defer pwg.Done()
						psem <- struct{}{}
						defer func() { <-psem }()
						pas[pi], _ = solve(dir, fmt.Sprintf("q%05d_p%d", i, pi), ob.QueryPart(pi), timeout, false)
					}(pi)
				}
				pwg.Wait()
				for _, pa := range pas {
					total += pa.TimeS
					if pa.Status != "unsat" {
						allUnsat = false
						ans = pa
						if pa.Status == "sat" {
							break
						}
					}
				}
				if allUnsat {
					ans = SolverAnswer{Status: "unsat", Solver: "z3-new+paths", TimeS: total}
				}
				ans.TimeS = total
			}
			if ans.Status != "unsat" && ans.Status != "sat" && len(ob.cx.splits) > 0 && !ob.IsCover {
				// case split: every case must be unsat
				total := ans.TimeS
				allUnsat := true
				// the cases are independent: a few at a time
				cases := ob.cx.splits[0]
				cas := make([]SolverAnswer, len(cases))
				var cwg sync.WaitGroup
				csem := make(chan struct{}, 4)
				for ci, hyp := range cases {
					cwg.Add(1)
					go func(ci int, hyp *Term) {
						defer cwg.Done()
						csem <- struct{}{}
						defer func() { <-csem }()
						cas[ci], _ = solve(dir, fmt.Sprintf("q%05d_c%d", i, ci), ob.QueryCase(true, hyp), o.TimeoutS, false)
					}(ci, hyp)
				}
				cwg.Wait()
				for _, ca := range cas {
					total += ca.TimeS
					if ca.Status != "unsat" {
						allUnsat = false
						ans = ca
						break
					}
				}
				if allUnsat {
					ans = SolverAnswer{Status: "unsat", Solver: "z3-new+split", TimeS: total}
				}
				ans.TimeS = total
			}
			ob.Solver, ob.TimeS, ob.Output = ans.Solver, ans.TimeS, ans.Output
			switch {
			case ob.IsCover:
				switch ans.Status {
				case "sat":
					ob.Status = "discharged"
				case "unsat":
					ob.Status = "vacuous"
				default:
					ob.Status = "cover-unknown"
				}
			case ans.Status == "unsat":
				ob.Status = "discharged"
			case ans.Status == "sat":
				ob.Status = "sat"
				ob.Model = ans.Output
				if explainMode {
					if i := strings.Index(ans.Output, "EXPLAIN"); i >= 0 {
						j := strings.Index(ans.Output, "END-EXPLAIN")
						if j < 0 {
							j = len(ans.Output)
						}
						txt := ans.Output[i:j]
						if len(txt) > 6000 {
							txt = txt[:6000]
						}
						fmt.Printf("---- %s\n%s\n", shortName(ob.Name), txt)
					}
				}
			default:
				ob.Status = ans.Status
				if !o.Fast && ((ob.cx.bc != nil && ob.cx.bc.C.Replay != "") || explainMode) {
					// look for a candidate counterexample without the quantified hypotheses
					ob.cx.w.mu.Lock()
					refs := ob.refutations()
					ob.cx.w.mu.Unlock()
					for ri, rf := range refs {
						if ri >= 8 {
							break
						}
						file := filepath.Join(dir, fmt.Sprintf("q%05d_relaxed%d.smt2", i, ri))
						os.WriteFile(file, []byte(ob.QueryRelaxed(rf)), 0o644)
						ra := runOne("z3-new", file, 6)
						if ra.Status == "sat" {
							if explainMode {
								if i := strings.Index(ra.Output, "EXPLAIN"); i >= 0 {
									txt := ra.Output[i:]
									if len(txt) > 4000 {
										txt = txt[:4000]
									}
									fmt.Printf("---- (candidate, quantified hypotheses dropped) %s\n%s\n", shortName(ob.Name), txt)
								}
							}
							ob.Relaxed = true
							ob.Model = ra.Output
							ob.Output = ans.Output + "\n--- candidate counterexample (quantified hypotheses dropped) ---\n" + ra.Output
							break
						}
					}
				}
			}
		}(i, ob)
	}
	wg2.Wait()
	// second chance: obligations that only timed out are retried one after the other with a
	// generous budget, so that machine load cannot turn a proof into an alarm
	for i, ob := range all {
		if o.Fast || ob.IsCover || ob.Trivial || ob.Status == "discharged" || ob.Status == "sat" || ob.Relaxed {
			continue
		}
		if kfList.match("", ob) != nil {
			continue
		}
		budget := o.TimeoutS * 4
		if ob.cx.bc != nil && ob.cx.bc.C.TimeoutS > 0 {
			budget = ob.cx.bc.C.TimeoutS * 3
			if o.Tier == "thorough" {
				budget *= 3 // the deeper unrolling of the thorough tier runs alone here: machine load must not turn it into an alarm
			}
		}
		var queries []string
		if len(ob.parts) > 1 {
			for pi := range ob.parts {
				queries = append(queries, ob.QueryPart(pi))
			}
		} else if len(ob.cx.splits) > 0 {
			for _, hyp := range ob.cx.splits[0] {
				queries = append(queries, ob.QueryCase(true, hyp))
			}
		} else {
			queries = []string{ob.Query(true)}
		}
		okAll := true
		total := 0.0
		for qi, q := range queries {
			ans, _ := solve(dir, fmt.Sprintf("q%05d_retry%d", i, qi), q, budget, false)
			total += ans.TimeS
			if ans.Status != "unsat" {
				okAll = false
				if ans.Status == "sat" {
					ob.Status = "sat"
					ob.Model = ans.Output
					ob.Output = ans.Output
				}
				break
			}
		}
		if okAll {
			ob.Status = "discharged"
			ob.Solver = "retry"
			ob.TimeS += total
		}
	}
	// lemmas
	for _, lm := range e.cs.Lemmas {
		if lm.File == "" {
			continue
		}
		if prop != "" && !propsContain(lm.Props, prop) {
			continue
		}
		if re != nil {
			continue
		}
		path := filepath.Join(o.Verif, "lemmas", lm.File)
		data, err := os.ReadFile(path)
		lr := &LemmaResult{L: lm}
		if err != nil {
			lr.Status = "error"
			lr.Output = err.Error()
		} else {
			ans, _ := solve(dir, "lemma_"+sanitize(lm.Name), string(data), o.TimeoutS, o.Tier == "thorough")
			lr.Status, lr.Solver, lr.TimeS, lr.Output = ans.Status, ans.Solver, ans.TimeS, ans.Output
		}
		run.Lemmas = append(run.Lemmas, lr)
	}
	return run
}

func cmdCheck(o *Options, prop string) int {
	start := time.Now()
	e, err := loadEngine(o.Repo)
	if err != nil {
		fmt.Printf("UNDECIDED property=%s reason=%q\n", prop, "cannot load /repo: "+err.Error())
		writeEvidenceFailure(o, prop, "cannot load repository: "+err.Error(), time.Since(start).Seconds())
		return 2
	}
	for _, er := range e.cs.Errors {
		fmt.Println("contract parse error:", er)
	}
	for _, er := range e.bindErrs {
		fmt.Println("contract bind error:", er)
	}
	run := runCheck(o, e, prop)
	return report(o, e, run)
}

func report(o *Options, e *Engine, run *CheckRun) int {
	prop := run.Prop
	nObl, nDis, nTriv, nBounded, nBoundedDis := 0, 0, 0, 0, 0
	var failed []*Obligation
	byBackend := map[string]int{}
	var solverTime float64
	kfAll := loadKnownFindings(o.Verif)
	kfObls := []string{}
	for _, ob := range run.Obls {
		if ob.Status != "discharged" && kfAll.match(prop, ob) != nil {
			// a recorded finding is not part of what this run claims to have proved: it is reported
			// separately (KNOWN-FINDING line, coverage.known_finding_obligations) and not counted as an obligation
			kfObls = append(kfObls, shortName(ob.Name))
			failed = append(failed, ob)
			continue
		}
		if ob.Bounded != "" {
			nBounded++
			if ob.Status == "discharged" {
				nBoundedDis++
			} else {
				failed = append(failed, ob)
			}
			continue
		}
		nObl++
		solverTime += ob.TimeS
		if ob.Status == "discharged" {
			nDis++
			byBackend[ob.Solver]++
			if ob.Trivial {
				nTriv++
			}
		} else {
			failed = append(failed, ob)
		}
	}
	vacuous := 0
	for _, c := range run.Covers {
		if c.Status == "vacuous" {
			vacuous++
			run.Undecided = append(run.Undecided, "vacuous: "+c.Name+" ("+c.Clause+")")
		}
	}
	lemmaFail := 0
	for _, lr := range run.Lemmas {
		nObl++
		solverTime += lr.TimeS
		if lr.Status == "unsat" {
			nDis++
			byBackend[lr.Solver]++
		} else {
			lemmaFail++
		}
	}
	// binding problems relevant to this property
	for _, er := range e.bindErrs {
		run.Undecided = append(run.Undecided, "bind: "+er)
	}
	for _, er := range e.cs.Errors {
		run.Undecided = append(run.Undecided, "parse: "+er)
	}

	if o.Verbose || prop == "" {
		for _, ob := range run.Obls {
			if ob.Trivial && !o.Verbose {
				continue
			}
			fmt.Printf("  %-11s %-7s %5.2fs %s  %s\n", ob.Status, ob.Solver, ob.TimeS, shortName(ob.Name), ob.Pos)
		}
		for _, c := range run.Covers {
			fmt.Printf("  cover %-11s %-7s %5.2fs %s\n", c.Status, c.Solver, c.TimeS, shortName(c.Name))
		}
	}
	for _, u := range run.Undecided {
		fmt.Printf("UNDECIDED property=%s %s\n", prop, u)
	}

	// known findings and lock
	kf := loadKnownFindings(o.Verif)
	lock := loadLock(o.Verif)
	exit := 0
	violations := 0
	var printedKF []string
	replayDir := filepath.Join(o.Verif, "replays", prop)
	if prop == "" {
		replayDir = filepath.Join(o.Verif, "replays", "_dev")
	}
	for _, ob := range failed {
		if k := kf.match(prop, ob); k != nil {
			line := fmt.Sprintf("KNOWN-FINDING: property=%s %s", prop, k.What)
			printedKF = append(printedKF, line)
			continue
		}
		path := writeReplay(o, e, replayDir, ob)
		switch ob.Status {
		case "sat":
			outcome := tryReplay(o, e, ob, path)
			if outcome == "reproduced" {
				fmt.Printf("VIOLATION property=%s replay=%s obligation=%q\n", prop, path, shortName(ob.Name))
			} else {
				fmt.Printf("VIOLATION property=%s replay=%s obligation=%q no-failing-input-found\n", prop, path, shortName(ob.Name))
			}
		default:
			if ob.Relaxed {
				if tryReplayRelaxed(o, e, ob, path) == "reproduced" {
					fmt.Printf("VIOLATION property=%s replay=%s obligation=%q status=%s\n", prop, path, shortName(ob.Name), ob.Status)
					break
				}
			} else if ob.cx.bc != nil && ob.cx.bc.C.Replay != "" {
				// no model: let the scenario search its own inputs for the forbidden behaviour
				saved := ob.Output
				ob.Output = ""
				r := tryReplay(o, e, ob, path)
				ob.Output = saved
				if r == "reproduced" {
					fmt.Printf("VIOLATION property=%s replay=%s obligation=%q status=%s\n", prop, path, shortName(ob.Name), ob.Status)
					break
				}
			}
			fmt.Printf("VIOLATION property=%s replay=%s obligation=%q status=%s no-failing-input-found\n", prop, path, shortName(ob.Name), ob.Status)
		}
		violations++
		exit = 1
	}
	for _, lr := range run.Lemmas {
		if lr.Status != "unsat" {
			path := writeLemmaReplay(o, replayDir, lr)
			fmt.Printf("VIOLATION property=%s replay=%s obligation=%q status=%s no-failing-input-found\n", prop, path, "lemma "+lr.L.Name, lr.Status)
			violations++
			exit = 1
		}
	}
	seen := map[string]bool{}
	for _, l := range printedKF {
		if !seen[l] {
			seen[l] = true
			fmt.Println(l)
		}
	}
	// lock: semantic obligations that must exist
	missing := 0
	if o.UpdLock && prop != "" && o.FuncRe == "" && o.OblRe == "" {
		updateLock(o, run)
		lock = loadLock(o.Verif)
	}
	if prop != "" && !o.NoLock && o.FuncRe == "" {
		have := map[string]bool{}
		for _, ob := range run.Obls {
			have[shortName(ob.Name)] = true
		}
		for _, lr := range run.Lemmas {
			have["lemma "+lr.L.Name] = true
		}
		for _, nm := range lock[prop] {
			if !have[nm] {
				fmt.Printf("UNDECIDED property=%s obligation=%q reason=\"obligation of the baseline is no longer generated\"\n", prop, nm)
				missing++
			}
		}
	}
	if exit == 0 && (len(run.Undecided) > 0 || missing > 0 || vacuous > 0) {
		exit = 2
	}
	if exit == 0 && nObl == 0 && prop != "" {
		fmt.Printf("UNDECIDED property=%s reason=\"no obligations generated\"\n", prop)
		exit = 2
	}
	wall := time.Since(run.Start).Seconds()
	fmt.Printf("property=%s tier=%s functions=%d obligations=%d discharged=%d (simplifier %d) bounded=%d/%d lemmas=%d failed=%d undecided=%d known-findings=%d wall=%.1fs\n",
		prop, o.Tier, len(run.Results), nObl, nDis, nTriv, nBoundedDis, nBounded, len(run.Lemmas), len(failed)+lemmaFail-len(printedKF), len(run.Undecided)+missing, len(seen), wall)
	if prop != "" && o.FuncRe == "" && o.OblRe == "" && !o.Fast {
		writeEvidence(o, e, run, nObl, nDis, nTriv, nBounded, nBoundedDis, byBackend, solverTime, violations, keys(seen), wall, kfObls)
	}
	return exit
}

func keys(m map[string]bool) []string {
	var out []string
	for k := range m {
		out = append(out, k)
	}
	sort.Strings(out)
	return out
}

// ---------- lock ----------

func loadLock(verif string) map[string][]string {
	out := map[string][]string{}
	data, err := os.ReadFile(filepath.Join(verif, "baseline", "obligations.lock"))
	if err != nil {
		return out
	}
	for _, ln := range strings.Split(string(data), "\n") {
		ln = strings.TrimSpace(ln)
		if ln == "" || strings.HasPrefix(ln, "#") {
			continue
		}
		i := strings.Index(ln, " ")
		if i < 0 {
			continue
		}
		out[ln[:i]] = append(out[ln[:i]], ln[i+1:])
	}
	return out
}

func lockLines(p string, run *CheckRun) []string {
	var lines []string
	for _, ob := range run.Obls {
		switch ob.Kind {
		case "ensures", "invariant-entry", "invariant-preserved", "frame", "loop-step", "guarded-by", "split", "call-site":
			if ob.Status == "discharged" {
				lines = append(lines, p+" "+shortName(ob.Name))
			}
		}
	}
	for _, lr := range run.Lemmas {
		if lr.Status == "unsat" {
			lines = append(lines, p+" lemma "+lr.L.Name)
		}
	}
	return lines
}

// updateLock replaces the lock entries of one property.
func updateLock(o *Options, run *CheckRun) {
	path := filepath.Join(o.Verif, "baseline", "obligations.lock")
	data, _ := os.ReadFile(path)
	var out []string
	for _, ln := range strings.Split(strings.TrimRight(string(data), "\n"), "\n") {
		if strings.HasPrefix(ln, run.Prop+" ") {
			continue
		}
		if ln != "" {
			out = append(out, ln)
		}
	}
	if len(out) == 0 {
		out = append(out, "# semantic obligations (ensures, invariants, frames, lemmas) discharged on the unchanged tree; one per line: <property> <obligation>")
	}
	out = append(out, lockLines(run.Prop, run)...)
	head, rest := out[:1], out[1:]
	sort.Strings(rest)
	os.MkdirAll(filepath.Dir(path), 0o755)
	os.WriteFile(path, []byte(strings.Join(append(head, rest...), "\n")+"\n"), 0o644)
}

func cmdLock(o *Options) int {
	e, err := loadEngine(o.Repo)
	if err != nil {
		fmt.Println(err)
		return 2
	}
	props := allProps(e)
	var lines []string
	lines = append(lines, "# semantic obligations (ensures, invariants, frames, lemmas) discharged on the unchanged tree; one per line: <property> <obligation>")
	for _, p := range props {
		run := runCheck(o, e, p)
		for _, ob := range run.Obls {
			switch ob.Kind {
			case "ensures", "invariant-entry", "invariant-preserved", "frame", "loop-step", "guarded-by", "split", "call-site":
				if ob.Status == "discharged" {
					lines = append(lines, p+" "+shortName(ob.Name))
				}
			}
		}
		for _, lr := range run.Lemmas {
			if lr.Status == "unsat" {
				lines = append(lines, p+" lemma "+lr.L.Name)
			}
		}
	}
	os.MkdirAll(filepath.Join(o.Verif, "baseline"), 0o755)
	if err := os.WriteFile(filepath.Join(o.Verif, "baseline", "obligations.lock"), []byte(strings.Join(lines, "\n")+"\n"), 0o644); err != nil {
		fmt.Println(err)
		return 2
	}
	fmt.Printf("wrote %d lock entries\n", len(lines)-1)
	return 0
}

func allProps(e *Engine) []string {
	set := map[string]bool{}
	for _, bc := range e.bound {
		for _, p := range bc.C.Props {
			set[p] = true
		}
		for _, en := range bc.C.Ensures {
			for _, p := range en.Prop {
				set[p] = true
			}
		}
	}
	for _, l := range e.cs.Lemmas {
		for _, p := range l.Props {
			set[p] = true
		}
	}
	return keys(set)
}

// ---------- evidence ----------

func writeEvidenceFailure(o *Options, prop, why string, wall float64) {
	if prop == "" {
		return
	}
	ev := map[string]interface{}{
		"property_id": prop, "tier": o.Tier, "seed": o.Seed, "level": "other",
		"coverage":    map[string]interface{}{"explanation": "check could not run: " + why},
		"wall_s":      wall, "violations": 0,
	}
	writeJSON(filepath.Join(o.Verif, "evidence", prop+".json"), ev)
}

func writeJSON(path string, v interface{}) {
	os.MkdirAll(filepath.Dir(path), 0o755)
	data, _ := json.MarshalIndent(v, "", " ")
	os.WriteFile(path, append(data, '\n'), 0o644)
}

func writeEvidence(o *Options, e *Engine, run *CheckRun, nObl, nDis, nTriv, nBounded, nBoundedDis int, byBackend map[string]int, solverTime float64, violations int, kf []string, wall float64, kfObls []string) {
	var fns []string
	for _, r := range run.Results {
		if r.BC != nil {
			fns = append(fns, shortName(r.BC.Name()))
		}
	}
	sort.Strings(fns)
	var samples []interface{}
	var slow []*Obligation
	for _, ob := range run.Obls {
		if !ob.Trivial {
			slow = append(slow, ob)
		}
	}
	sort.Slice(slow, func(i, j int) bool { return slow[i].TimeS > slow[j].TimeS })
	for i, ob := range slow {
		if i >= 6 {
			break
		}
		samples = append(samples, map[string]interface{}{
			"obligation": shortName(ob.Name), "kind": ob.Kind, "clause": ob.Clause, "at": ob.Pos,
			"status": ob.Status, "backend": ob.Solver, "time_s": round3(ob.TimeS), "smt_bytes": len(ob.Query(false)),
		})
	}
	for _, lr := range run.Lemmas {
		samples = append(samples, map[string]interface{}{"obligation": "lemma " + lr.L.Name, "file": "lemmas/" + lr.L.File, "status": lr.Status, "backend": lr.Solver, "time_s": round3(lr.TimeS)})
	}
	if len(samples) == 0 {
		samples = append(samples, "no non-trivial obligation in this run")
	}
	covChecked, covOK := 0, 0
	for _, c := range run.Covers {
		covChecked++
		if c.Status == "discharged" {
			covOK++
		}
	}
	trusted := keys(run.Trusted)
	global := []string{
		"go/packages + go/ssa (x/tools v0.29.0) build a faithful SSA of /repo's working tree; govc's encoding of SSA into SMT-LIB (validated by the selfcheck corpus)",
		"soundness of z3 5.1.0 / z3 4.8.12 / cvc5 1.0.3",
		"termination of every function and loop is not proved",
		"each function is verified as sequential code of one goroutine (no interleavings, no data-race reasoning)",
	}
	var bounds []string
	seenB := map[string]bool{}
	for _, ob := range run.Obls {
		if ob.Bounded != "" && !seenB[ob.Func+ob.Bounded] {
			seenB[ob.Func+ob.Bounded] = true
			bounds = append(bounds, shortName(ob.Func)+": "+ob.Bounded)
		}
	}
	sort.Strings(bounds)
	cov := map[string]interface{}{
		"obligations":              nObl,
		"discharged":               nDis,
		"discharged_by_simplifier": nTriv,
		"checker_cmd":              fmt.Sprintf("./bin/govc check %s --tier %s", run.Prop, o.Tier),
		"trusted_base":             append(global, trusted...),
		"functions_under_contract": fns,
		"by_backend":               byBackend,
		"solver_time_s":            round3(solverTime),
		"bounded":                  map[string]interface{}{"obligations": nBounded, "discharged": nBoundedDis, "bounds": bounds},
		"covers":                   map[string]interface{}{"checked": covChecked, "reachable": covOK},
		"lemmas":                   len(run.Lemmas),
		"samples":                  samples,
		"known_findings_printed":   kf,
		"known_finding_obligations": kfObls,
		"undecided":                run.Undecided,
		"per_obligation_timeout_s": o.TimeoutS,
	}
	ev := map[string]interface{}{
		"property_id": run.Prop, "tier": o.Tier, "seed": o.Seed, "level": "proof",
		"coverage": cov, "assumptions": append(global, trusted...), "wall_s": round3(wall), "violations": violations,
	}
	writeJSON(filepath.Join(o.Verif, "evidence", run.Prop+".json"), ev)
}

func round3(f float64) float64 {
	return float64(int(f*1000+0.5)) / 1000
}
