package main

import (
	"encoding/json"
	"fmt"
	"os"
	"path/filepath"
	"strings"
)

// ---------- known findings ----------

type KnownFinding struct {
	Property   string `json:"property"`
	Obligation string `json:"obligation"` // exact (short) obligation name
	What       string `json:"what"`
	Status     string `json:"status"` // "known" or "fixed"
	Commit     string `json:"commit,omitempty"`
}

type KnownFindings struct {
	Findings []KnownFinding `json:"findings"`
}

func loadKnownFindings(verif string) *KnownFindings {
	kf := &KnownFindings{}
	data, err := os.ReadFile(filepath.Join(verif, "known_findings.json"))
	if err != nil {
		return kf
	}
	json.Unmarshal(data, kf)
	return kf
}

func (kf *KnownFindings) match(prop string, ob *Obligation) *KnownFinding {
	nm := shortName(ob.Name)
	for i := range kf.Findings {
		k := &kf.Findings[i]
		if k.Status == "fixed" {
			continue
		}
		if k.Obligation == nm && (k.Property == prop || prop == "") {
			return k
		}
	}
	return nil
}

// ---------- replay files ----------

type ReplayFile struct {
	Property   string   `json:"property"`
	Obligation string   `json:"obligation"`
	Kind       string   `json:"kind"`
	Function   string   `json:"function"`
	Clause     string   `json:"clause"`
	At         string   `json:"at"`
	Status     string   `json:"status"`
	Solver     string   `json:"solver"`
	Output     string   `json:"solver_output"`
	Inputs     []string `json:"model_inputs,omitempty"`
	Replay     string   `json:"replay_kind"`
	Outcome    string   `json:"outcome"`
	TestSource string   `json:"test_source,omitempty"`
	TestOutput string   `json:"test_output,omitempty"`
	Query      string   `json:"query_file,omitempty"`
}

func replayPath(dir string, ob *Obligation) string {
	return filepath.Join(dir, sanitize(shortName(ob.Name))+".json")
}

func writeReplay(o *Options, e *Engine, dir string, ob *Obligation) string {
	os.MkdirAll(dir, 0o755)
	path := replayPath(dir, ob)
	out := ob.Output
	if len(out) > 20000 {
		out = out[:20000] + "\n...truncated"
	}
	qfile := strings.TrimSuffix(path, ".json") + ".smt2"
	os.WriteFile(qfile, []byte(ob.Query(true)), 0o644)
	rf := &ReplayFile{Property: strings.Join(ob.Props, ","), Obligation: shortName(ob.Name), Kind: ob.Kind, Function: shortName(ob.Func),
		Clause: ob.Clause, At: ob.Pos, Status: ob.Status, Solver: ob.Solver, Output: out, Replay: "none", Outcome: "not-replayed", Query: qfile}
	if ob.Status == "sat" {
		rf.Inputs = modelInputs(ob)
	}
	writeJSON(path, rf)
	return path
}

func writeLemmaReplay(o *Options, dir string, lr *LemmaResult) string {
	os.MkdirAll(dir, 0o755)
	path := filepath.Join(dir, "lemma_"+sanitize(lr.L.Name)+".json")
	rf := &ReplayFile{Property: strings.Join(lr.L.Props, ","), Obligation: "lemma " + lr.L.Name, Kind: "lemma", Clause: "lemmas/" + lr.L.File,
		Status: lr.Status, Solver: lr.Solver, Output: lr.Output, Replay: "none", Outcome: "not-replayed"}
	writeJSON(path, rf)
	return path
}

// modelInputs extracts the model values of the function's inputs (parameters).
func modelInputs(ob *Obligation) []string {
	var out []string
	for _, ln := range strings.Split(ob.Output, "\n") {
		_ = ln
	}
	// keep the define-fun lines for p_* constants
	lines := strings.Split(ob.Output, "\n")
	for i := 0; i < len(lines); i++ {
		l := strings.TrimSpace(lines[i])
		if strings.HasPrefix(l, "(define-fun |p_") || strings.HasPrefix(l, "(define-fun |fv_") || strings.HasPrefix(l, "(define-fun p_") || strings.HasPrefix(l, "(define-fun fv_") {
			entry := l
			// value may be on following line(s)
			depth := strings.Count(l, "(") - strings.Count(l, ")")
			for depth > 0 && i+1 < len(lines) {
				i++
				nl := strings.TrimSpace(lines[i])
				entry += " " + nl
				depth += strings.Count(nl, "(") - strings.Count(nl, ")")
			}
			out = append(out, entry)
		}
	}
	return out
}

func cmdReplay(o *Options, path string) int {
	data, err := os.ReadFile(path)
	if err != nil {
		fmt.Println(err)
		return 2
	}
	var rf ReplayFile
	if err := json.Unmarshal(data, &rf); err != nil {
		fmt.Println(err)
		return 2
	}
	fmt.Printf("obligation: %s\nclause: %s\nat: %s\nstatus: %s (%s)\noutcome: %s\n", rf.Obligation, rf.Clause, rf.At, rf.Status, rf.Solver, rf.Outcome)
	if rf.TestSource != "" {
		out, ok := runReplayTest(o, rf.Function, rf.TestSource)
		fmt.Println(out)
		if ok {
			fmt.Println("replay: reproduced on the real code")
			return 1
		}
		fmt.Println("replay: not reproduced")
		return 0
	}
	for _, in := range rf.Inputs {
		fmt.Println("  ", in)
	}
	fmt.Println("no executable replay for this obligation; the solver output is in the file")
	return 0
}
