package main

// tryReplay attempts to reproduce a counterexample on the real code.
func tryReplay(o *Options, e *Engine, ob *Obligation, path string) string {
	return "not-replayed"
}

func runReplayTest(o *Options, fn, src string) (string, bool) {
	return "", false
}

func cmdSelfcheck(o *Options) int {
	return 0
}
