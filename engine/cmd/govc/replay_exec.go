package main

import (
	"context"
	"encoding/json"
	"fmt"
	"os"
	"os/exec"
	"path/filepath"
	"regexp"
	"strings"
	"time"
)

// witnessValues parses the (get-value ...) answer that follows "sat".
func witnessValues(ob *Obligation) map[string]string {
	out := map[string]string{}
	var ws []witnessTerm
	for _, wt := range ob.cx.witness {
		if wt.mark <= ob.mark {
			ws = append(ws, wt)
		}
	}
	if len(ws) == 0 {
		return out
	}
	// the get-value block is the first s-expression after the status line
	txt := ob.Output
	i := strings.Index(txt, "((")
	if i < 0 {
		return out
	}
	// split top-level pairs
	depth := 0
	start := -1
	var pairs []string
	for j := i; j < len(txt); j++ {
		switch txt[j] {
		case '(':
			depth++
			if depth == 2 {
				start = j
			}
		case ')':
			if depth == 2 && start >= 0 {
				pairs = append(pairs, txt[start+1:j])
				start = -1
			}
			depth--
			if depth == 0 {
				j = len(txt)
			}
		}
	}
	for k, p := range pairs {
		if k >= len(ws) {
			break
		}
		// value is the last token / s-expression of the pair
		p = strings.TrimSpace(p)
		val := p
		if strings.HasSuffix(p, ")") {
			d := 0
			for j := len(p) - 1; j >= 0; j-- {
				if p[j] == ')' {
					d++
				} else if p[j] == '(' {
					d--
					if d == 0 {
						val = p[j:]
						break
					}
				}
			}
		} else if idx := strings.LastIndexAny(p, " \n\t"); idx >= 0 {
			val = p[idx+1:]
		}
		out[ws[k].text] = strings.TrimSpace(val)
	}
	return out
}

type replayParams struct {
	Scenario   string            `json:"scenario"`
	Args       []string          `json:"args"`
	Obligation string            `json:"obligation"`
	Kind       string            `json:"kind"`
	Label      string            `json:"label"`
	Witness    map[string]string `json:"witness"`
	Package    string            `json:"package"`
}

// tryReplayRelaxed replays a candidate model obtained without the quantified hypotheses.
func tryReplayRelaxed(o *Options, e *Engine, ob *Obligation, path string) string {
	saved := ob.Output
	ob.Output = ob.Model
	defer func() { ob.Output = saved }()
	return tryReplay(o, e, ob, path)
}

// tryReplay attempts to reproduce a counterexample on the real code.
func tryReplay(o *Options, e *Engine, ob *Obligation, path string) string {
	bc := ob.cx.bc
	if bc == nil || bc.C.Replay == "" {
		return "not-replayed"
	}
	f := strings.Fields(bc.C.Replay)
	rp := &replayParams{Scenario: f[0], Args: f[1:], Obligation: shortName(ob.Name), Kind: ob.Kind, Label: ob.Label, Witness: witnessValues(ob), Package: bc.C.PkgPath}
	outcome, output := runScenario(o, rp)
	// update the replay file
	data, err := os.ReadFile(path)
	if err == nil {
		var rf ReplayFile
		if json.Unmarshal(data, &rf) == nil {
			rf.Replay = "scenario " + bc.C.Replay
			rf.Outcome = outcome
			rf.TestOutput = output
			pj, _ := json.Marshal(rp)
			rf.TestSource = string(pj)
			writeJSON(path, &rf)
		}
	}
	return outcome
}

var replayLine = regexp.MustCompile(`GOVC-REPLAY: (reproduced|not-reproduced|not-replayable)(.*)`)

// runScenario runs the in-package replay test through `go test -overlay`.
func runScenario(o *Options, rp *replayParams) (string, string) {
	rel := strings.TrimPrefix(strings.TrimPrefix(rp.Package, modulePath), "/")
	scDir := filepath.Join(o.Verif, "scenarios", "txfile")
	if rel != "" {
		scDir = filepath.Join(o.Verif, "scenarios", rel)
	}
	files, _ := filepath.Glob(filepath.Join(scDir, "*_test.go"))
	if len(files) == 0 {
		return "not-replayed", "no scenario files in " + scDir
	}
	tmp, err := os.MkdirTemp("", "govc-replay-")
	if err != nil {
		return "not-replayed", err.Error()
	}
	defer os.RemoveAll(tmp)
	ov := map[string]map[string]string{"Replace": {}}
	pkgDir := filepath.Join(o.Repo, rel)
	for _, f := range files {
		ov["Replace"][filepath.Join(pkgDir, filepath.Base(f))] = f
	}
	ovData, _ := json.Marshal(ov)
	ovPath := filepath.Join(tmp, "ov.json")
	os.WriteFile(ovPath, ovData, 0o644)
	pj, _ := json.Marshal(rp)
	pPath := filepath.Join(tmp, "params.json")
	os.WriteFile(pPath, pj, 0o644)
	ctx, cancel := context.WithTimeout(context.Background(), 180*time.Second)
	defer cancel()
	cmd := exec.CommandContext(ctx, "go", "test", "-overlay", ovPath, "-vet=off", "-count=1", "-timeout", "60s", "-v", "-run", "^TestGovcReplay$", ".")
	cmd.Dir = pkgDir
	cmd.Env = append(os.Environ(), "GOFLAGS=-mod=mod", "GOPROXY=off", "GOSUMDB=off", "GOTOOLCHAIN=local", "GOVC_REPLAY="+pPath, "GOCACHE="+goCache())
	out, _ := cmd.CombinedOutput()
	text := string(out)
	if len(text) > 6000 {
		text = text[:6000] + "\n...truncated"
	}
	if m := replayLine.FindStringSubmatch(text); m != nil {
		return m[1], text
	}
	if strings.Contains(text, "panic:") || strings.Contains(text, "test timed out") {
		// the replay itself crashed or hung outside the guarded call
		return "reproduced", text
	}
	return "not-replayed", text
}

func goCache() string {
	if c := os.Getenv("GOCACHE"); c != "" {
		return c
	}
	home, _ := os.UserHomeDir()
	return filepath.Join(home, ".cache", "go-build")
}

func runReplayTest(o *Options, fn, src string) (string, bool) {
	var rp replayParams
	if err := json.Unmarshal([]byte(src), &rp); err != nil {
		return "bad replay parameters: " + err.Error(), false
	}
	outcome, out := runScenario(o, &rp)
	return fmt.Sprintf("%s\n%s", outcome, out), outcome == "reproduced"
}

func cmdSelfcheck(o *Options) int {
	return 0
}
