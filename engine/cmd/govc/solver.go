package main

import (
	"runtime"
	"context"
	"fmt"
	"os"
	"os/exec"
	"path/filepath"
	"strings"
	"time"
)

type SolverAnswer struct {
	Status string // unsat, sat, unknown
	Solver string
	TimeS  float64
	Output string
}

var solverCmds = map[string]func(file string, timeoutS int) []string{
	"z3-new": func(f string, t int) []string { return []string{"z3-new", fmt.Sprintf("-T:%d", t), f} },
	"z3":     func(f string, t int) []string { return []string{"z3", fmt.Sprintf("-T:%d", t), f} },
	"cvc5":   func(f string, t int) []string { return []string{"cvc5", fmt.Sprintf("--tlimit=%d", t*1000), f} },
}

var procSem = make(chan struct{}, maxProcs())

func maxProcs() int {
	n := runtime.NumCPU()
	if n < 2 {
		n = 2
	}
	return n
}

func runOne(solver, file string, timeoutS int) SolverAnswer {
	procSem <- struct{}{}
	defer func() { <-procSem }()
	args := solverCmds[solver](file, timeoutS)
	ctx, cancel := context.WithTimeout(context.Background(), time.Duration(timeoutS+5)*time.Second)
	defer cancel()
	start := time.Now()
	cmd := exec.CommandContext(ctx, args[0], args[1:]...)
	out, _ := cmd.CombinedOutput()
	el := time.Since(start).Seconds()
	text := string(out)
	first := strings.TrimSpace(strings.SplitN(text, "\n", 2)[0])
	st := "unknown"
	switch first {
	case "unsat":
		st = "unsat"
	case "sat":
		st = "sat"
	case "unknown", "timeout":
		st = "unknown"
	default:
		if strings.Contains(text, "error") {
			st = "error"
		}
	}
	return SolverAnswer{Status: st, Solver: solver, TimeS: el, Output: text}
}

// raceTwo runs cvc5 and z3-new concurrently and returns the first definite answer.
func raceTwo(file string, timeoutS int) SolverAnswer {
	ch := make(chan SolverAnswer, 2)
	for _, s := range []string{"cvc5", "z3-new"} {
		go func(s string) { ch <- runOne(s, file, timeoutS) }(s)
	}
	a := <-ch
	if a.Status == "sat" || a.Status == "unsat" {
		return a
	}
	b := <-ch
	if b.Status == "sat" || b.Status == "unsat" {
		return b
	}
	return a
}

// solve runs the portfolio: z3-new briefly; if undecided, z3-new, z3 and cvc5
// race with the full timeout and the first definite answer wins.
func solve(dir, name, query string, timeoutS int, all bool) (SolverAnswer, []SolverAnswer) {
	file := filepath.Join(dir, name+".smt2")
	if err := os.WriteFile(file, []byte(query), 0o644); err != nil {
		return SolverAnswer{Status: "error", Output: err.Error()}, nil
	}
	var tried []SolverAnswer
	quick := 3
	if timeoutS < quick {
		quick = timeoutS
	}
	first := runOne("z3-new", file, quick)
	tried = append(tried, first)
	if (first.Status == "unsat" || first.Status == "sat") && !all {
		return first, tried
	}
	solvers := []string{"z3-new", "z3", "cvc5"}
	if first.Status == "unsat" || first.Status == "sat" {
		solvers = []string{"z3", "cvc5"}
	}
	ch := make(chan SolverAnswer, len(solvers))
	for _, s := range solvers {
		go func(s string) { ch <- runOne(s, file, timeoutS) }(s)
	}
	var best *SolverAnswer
	if first.Status == "unsat" || first.Status == "sat" {
		best = &first
	}
	for range solvers {
		r := <-ch
		tried = append(tried, r)
		if r.Status == "unsat" || r.Status == "sat" {
			if best == nil {
				rr := r
				best = &rr
				if !all {
					break
				}
			}
		}
	}
	if best != nil {
		return *best, tried
	}
	res := first
	for _, r := range tried {
		if res.Status == "error" && r.Status != "error" {
			res = r
		}
	}
	return res, tried
}
