package main

// Translation of specification expressions (Go expression syntax plus a few
// call forms) into terms, in an environment of named values and two heaps
// (current and old).

import (
	"fmt"
	"go/ast"
	"go/constant"
	"go/token"
	"go/types"
	"sort"
	"strconv"
	"strings"
)

func sortStrings(xs []string) { sort.Strings(xs) }

type specError struct{ msg string }

func (e specError) Error() string { return e.msg }

func specFail(format string, args ...interface{}) {
	panic(specError{fmt.Sprintf(format, args...)})
}

type SpecEnv struct {
	cx   *Ctx
	pkg  *types.Package // package the contract belongs to (scope for names)
	vars map[string]Val
	cur  *State
	old  *State
	// pre is the state at loop entry (for loop invariants), optional
	pre   *State
	iter  *State           // state at the head of the current loop iteration (step clauses)
	ranges []*MapIter      // map iterations of the function, in order of execution
	rets  map[string][]Val // results of the latest contract call per callee (short name)
	retNames map[string]map[string]int
	called   map[string]*Term
	depth int
	inAssume bool
}

func (e *SpecEnv) with(vars map[string]Val) *SpecEnv {
	n := *e
	n.vars = map[string]Val{}
	for k, v := range e.vars {
		n.vars[k] = v
	}
	for k, v := range vars {
		n.vars[k] = v
	}
	return &n
}

func (e *SpecEnv) inState(st *State) *SpecEnv {
	n := *e
	n.cur = st
	return &n
}

func (e *SpecEnv) w() *World    { return e.cx.w }
func (e *SpecEnv) b() *TermBank { return e.cx.w.b }

// evalBool evaluates a boolean spec expression.
func (e *SpecEnv) evalBool(x ast.Expr) *Term {
	v := e.eval(x)
	if v.t == nil || v.t.sort != SBool {
		specFail("expected boolean expression, got %s", exprString(x))
	}
	return v.t
}

func (e *SpecEnv) lookupType(x ast.Expr) types.Type {
	switch t := x.(type) {
	case *ast.Ident:
		if t.Name == "PageSet" {
			return pageSetType
		}
		if obj := types.Universe.Lookup(t.Name); obj != nil {
			if tn, ok := obj.(*types.TypeName); ok {
				return tn.Type()
			}
		}
		if obj := e.pkg.Scope().Lookup(t.Name); obj != nil {
			if tn, ok := obj.(*types.TypeName); ok {
				return tn.Type()
			}
		}
		return nil
	case *ast.SelectorExpr:
		if id, ok := t.X.(*ast.Ident); ok {
			if p := e.cx.eng.findPackage(e.pkg, id.Name); p != nil {
				if obj := p.Scope().Lookup(t.Sel.Name); obj != nil {
					if tn, ok := obj.(*types.TypeName); ok {
						return tn.Type()
					}
				}
			}
		}
		return nil
	case *ast.StarExpr:
		if el := e.lookupType(t.X); el != nil {
			return types.NewPointer(el)
		}
	case *ast.ArrayType:
		if t.Len == nil {
			if el := e.lookupType(t.Elt); el != nil {
				return types.NewSlice(el)
			}
		}
	case *ast.MapType:
		k, v := e.lookupType(t.Key), e.lookupType(t.Value)
		if k != nil && v != nil {
			return types.NewMap(k, v)
		}
	case *ast.ParenExpr:
		return e.lookupType(t.X)
	case *ast.InterfaceType:
		return types.NewInterfaceType(nil, nil)
	}
	return nil
}

func (e *SpecEnv) constVal(c constant.Value, typ types.Type) Val {
	b := e.b()
	if typ != nil {
		if n, ok := opaqueLE(typ); ok && (c.Kind() == constant.Int || c.Kind() == constant.Float) {
			u, _ := constant.Uint64Val(constant.ToInt(c))
			return Val{t: b.BV(u, n), typ: typ}
		}
		if bt, ok := typ.Underlying().(*types.Basic); ok {
			switch {
			case bt.Info()&types.IsUntyped != 0:
				return Val{konst: c}
			case bt.Info()&types.IsBoolean != 0:
				return Val{t: b.Bool(constant.BoolVal(c)), typ: typ}
			case bt.Info()&types.IsInteger != 0:
				return Val{t: e.cx.intConst(c, typ), typ: typ}
			case bt.Info()&types.IsString != 0:
				return Val{t: b.Int(int64(e.w().strID(constant.StringVal(c)))), typ: typ}
			case bt.Info()&types.IsUntyped != 0:
				return Val{konst: c}
			}
		}
	}
	return Val{konst: c}
}

// coerce turns an untyped constant into a value of type typ.
func (e *SpecEnv) coerce(v Val, typ types.Type) Val {
	if v.konst == nil || v.t != nil {
		return v
	}
	if typ == nil {
		// default type
		switch v.konst.Kind() {
		case constant.Bool:
			return Val{t: e.b().Bool(constant.BoolVal(v.konst)), typ: types.Typ[types.Bool]}
		case constant.Int:
			return Val{t: e.cx.intConst(v.konst, types.Typ[types.Int]), typ: types.Typ[types.Int]}
		case constant.String:
			return Val{t: e.b().Int(int64(e.w().strID(constant.StringVal(v.konst)))), typ: types.Typ[types.String]}
		}
		specFail("cannot default constant %v", v.konst)
	}
	if _, isIface := typ.Underlying().(*types.Interface); isIface {
		specFail("constant compared with interface needs explicit conversion")
	}
	r := e.constVal(v.konst, typ)
	if r.t == nil {
		specFail("cannot coerce constant %v to %s", v.konst, typ)
	}
	return r
}

func (e *SpecEnv) eval(x ast.Expr) Val {
	b := e.b()
	w := e.w()
	switch n := x.(type) {
	case *ast.ParenExpr:
		return e.eval(n.X)
	case *ast.BasicLit:
		switch n.Kind {
		case token.INT:
			return Val{konst: constant.MakeFromLiteral(n.Value, token.INT, 0)}
		case token.STRING:
			s, _ := strconv.Unquote(n.Value)
			return Val{konst: constant.MakeString(s)}
		case token.CHAR:
			return Val{konst: constant.MakeFromLiteral(n.Value, token.CHAR, 0)}
		}
		specFail("unsupported literal %s", n.Value)
	case *ast.Ident:
		switch n.Name {
		case "true":
			return Val{t: b.True(), typ: types.Typ[types.Bool]}
		case "false":
			return Val{t: b.False(), typ: types.Typ[types.Bool]}
		case "nil":
			return Val{isNil: true}
		}
		if v, ok := e.vars[n.Name]; ok {
			if v.isAddr {
				return Val{t: e.cx.load(e.cur, v.t, v.typ), typ: v.typ, loc: v.t}
			}
			return v
		}
		if gv := e.cx.eng.ghostVar(n.Name); gv != nil {
			loc := b.Glob(1000000 + gv.id)
			return Val{t: e.cx.load(e.cur, loc, gv.typ), typ: gv.typ, loc: loc}
		}
		if obj := e.pkg.Scope().Lookup(n.Name); obj != nil {
			switch o := obj.(type) {
			case *types.Const:
				return e.constVal(o.Val(), o.Type())
			case *types.Var:
				// package-level variable: read from heap
				g := e.cx.eng.globalFor(o)
				if g == nil {
					specFail("no ssa global for %s", n.Name)
				}
				loc := b.Glob(w.globID(g))
				return Val{t: e.cx.load(e.cur, loc, o.Type()), typ: o.Type(), loc: loc}
			}
		}
		specFail("unknown identifier %s", n.Name)
	case *ast.SelectorExpr:
		// package-qualified constant?
		if id, ok := n.X.(*ast.Ident); ok {
			if _, isVar := e.vars[id.Name]; !isVar && e.pkg.Scope().Lookup(id.Name) == nil {
				if p := e.cx.eng.findPackage(e.pkg, id.Name); p != nil {
					obj := p.Scope().Lookup(n.Sel.Name)
					switch o := obj.(type) {
					case *types.Const:
						return e.constVal(o.Val(), o.Type())
					case *types.Var:
						g := e.cx.eng.globalFor(o)
						if g != nil {
							loc := b.Glob(w.globID(g))
							return Val{t: e.cx.load(e.cur, loc, o.Type()), typ: o.Type(), loc: loc}
						}
					}
					specFail("unsupported package member %s.%s", id.Name, n.Sel.Name)
				}
			}
		}
		base := e.eval(n.X)
		return e.selectField(base, n.Sel.Name, x)
	case *ast.StarExpr:
		p := e.eval(n.X)
		pt, ok := p.typ.Underlying().(*types.Pointer)
		if !ok {
			specFail("deref of non-pointer %s", exprString(n.X))
		}
		return Val{t: e.cx.load(e.cur, p.t, pt.Elem()), typ: pt.Elem(), loc: p.t}
	case *ast.UnaryExpr:
		switch n.Op {
		case token.NOT:
			return Val{t: b.Not(e.evalBool(n.X)), typ: types.Typ[types.Bool]}
		case token.SUB:
			v := e.eval(n.X)
			if v.konst != nil && v.t == nil {
				return Val{konst: constant.UnaryOp(token.SUB, v.konst, 0)}
			}
			return Val{t: b.BVNeg(v.t), typ: v.typ}
		case token.XOR:
			v := e.eval(n.X)
			if v.konst != nil && v.t == nil {
				specFail("^ on untyped constant")
			}
			return Val{t: b.BVNot(v.t), typ: v.typ}
		case token.AND:
			// address-of: &x.f
			v := e.eval(n.X)
			if v.loc == nil {
				specFail("cannot take address of %s", exprString(n.X))
			}
			return Val{t: v.loc, typ: types.NewPointer(v.typ)}
		}
		specFail("unsupported unary op %s", n.Op)
	case *ast.BinaryExpr:
		return e.evalBinary(n)
	case *ast.SliceExpr:
		// s[lo:hi] of a slice (no bounds obligation in specifications: an out-of-range view is just some other view)
		base := e.eval(n.X)
		if base.t == nil || base.t.sort != SSlice || n.Slice3 {
			specFail("slice expression: %s is not a slice", exprString(n.X))
		}
		intT := types.Typ[types.Int]
		lo := b.BV(0, 64)
		if n.Low != nil {
			lo = e.coerce(e.eval(n.Low), intT).t
		}
		hi := w.slen(base.t)
		if n.High != nil {
			hi = e.coerce(e.eval(n.High), intT).t
		}
		et := base.typ.Underlying().(*types.Slice).Elem()
		sz := uint64(types.SizesFor("gc", "amd64").Sizeof(et))
		_ = sz
		return Val{t: w.mkSlice(w.sbase(base.t), b.BVOp("bvadd", w.soff(base.t), lo), b.BVOp("bvsub", hi, lo), b.BVOp("bvsub", w.scap(base.t), lo)), typ: base.typ}
	case *ast.IndexExpr:
		base := e.eval(n.X)
		return e.index(base, n.Index, x)
	case *ast.TypeAssertExpr:
		v := e.eval(n.X)
		t := e.lookupType(n.Type)
		if t == nil {
			specFail("unknown type in %s", exprString(x))
		}
		if v.t.sort != SIface {
			specFail("type assertion on non-interface %s", exprString(n.X))
		}
		return e.cx.unboxSt(e.cur, v.t, t)
	case *ast.CallExpr:
		return e.evalCall(n)
	case *ast.CompositeLit:
		return e.compositeLit(n)
	}
	specFail("unsupported spec expression %s (%T)", exprString(x), x)
	return Val{}
}

func (e *SpecEnv) selectField(base Val, name string, x ast.Expr) Val {
	w := e.w()
	if base.t == nil {
		specFail("cannot select %s from %s", name, exprString(x))
	}
	t := base.typ
	if t == nil {
		specFail("untyped base in %s", exprString(x))
	}
	if ov, ok := overlayOf(t); ok {
		nb := base
		nb.typ = ov
		if base.loc != nil {
			nb.loc = e.b().Elem(base.loc, e.b().BV(0, 64))
		}
		return e.selectField(nb, name, x)
	}
	if pt, ok := t.Underlying().(*types.Pointer); ok {
		if ov, ok := overlayOf(pt.Elem()); ok {
			return e.selectField(Val{t: e.b().Elem(base.t, e.b().BV(0, 64)), typ: types.NewPointer(ov)}, name, x)
		}
	}
	// pointer to struct: load through heap
	if pt, ok := t.Underlying().(*types.Pointer); ok {
		if _, ok := pt.Elem().Underlying().(*types.Struct); ok {
			si := w.structInfo(pt.Elem())
			if f, _, ok := si.field(name); ok {
				loc := e.b().Fld(base.t, f.FID)
				e.fieldAssumption(f.FID, base.t)
				return Val{t: e.cx.load(e.cur, loc, f.Type), typ: f.Type, loc: loc}
			}
			if f, ok := si.ghostField(name); ok {
				loc := e.b().Fld(base.t, f.FID)
				return Val{t: e.cx.load(e.cur, loc, f.Type), typ: f.Type, loc: loc}
			}
			// promoted through embedded fields
			for _, f := range si.Fields {
				if st, ok := f.Type.Underlying().(*types.Struct); ok && embedded(si.T, f.Name) {
					_ = st
					inner := Val{t: e.b().Fld(base.t, f.FID), typ: types.NewPointer(f.Type)}
					if r, ok := e.trySelect(inner, name, x); ok {
						return r
					}
				}
			}
			specFail("no field %s in %s (%s)", name, pt.Elem(), exprString(x))
		}
	}
	if _, ok := t.Underlying().(*types.Struct); ok {
		si := w.structInfo(t)
		if f, i, ok := si.field(name); ok {
			if base.loc != nil {
				loc := e.b().Fld(base.loc, f.FID)
				e.fieldAssumption(f.FID, base.loc)
				return Val{t: e.cx.load(e.cur, loc, f.Type), typ: f.Type, loc: loc}
			}
			return Val{t: w.structField(si, base.t, i), typ: f.Type}
		}
		if f, ok := si.ghostField(name); ok && base.loc != nil {
			loc := e.b().Fld(base.loc, f.FID)
			return Val{t: e.cx.load(e.cur, loc, f.Type), typ: f.Type, loc: loc}
		}
		specFail("no field %s in %s (%s)", name, t, exprString(x))
	}
	specFail("cannot select field %s of %s in %s", name, t, exprString(x))
	return Val{}
}

// fieldAssumption adds the modelling bound declared for a field (assume-field)
// for the value it has in the current state.
func (e *SpecEnv) fieldAssumption(fid int, self *Term) {
	w := e.w()
	bg := w.fieldAssume[fid]
	if bg == nil || e.inAssume {
		return
	}
	env := &SpecEnv{cx: e.cx, pkg: bg.pkg, vars: map[string]Val{"self": {t: self, typ: types.NewPointer(bg.structT)}}, cur: e.cur, old: e.old, inAssume: true}
	func() {
		defer func() { recover() }()
		g := env.evalBool(bg.g.Cond.Expr)
		if !hasBoundVar(g, map[int]bool{}) {
			e.cx.assume(g)
			e.cx.trust("modelling bound assumed on every read of " + bg.g.TypeName + "." + bg.g.Field + ": " + bg.g.Cond.Text)
		}
	}()
}

// hasBoundVar: the term mentions a quantifier-bound variable (cannot be asserted at top level)
func hasBoundVar(t *Term, seen map[int]bool) bool {
	if seen[t.id] {
		return false
	}
	seen[t.id] = true
	if len(t.args) == 0 && strings.HasPrefix(t.op, "|") && strings.Contains(t.op, "?") {
		return true
	}
	for _, a := range t.args {
		if hasBoundVar(a, seen) {
			return true
		}
	}
	return false
}

func (e *SpecEnv) trySelect(base Val, name string, x ast.Expr) (v Val, ok bool) {
	defer func() {
		if r := recover(); r != nil {
			if _, is := r.(specError); is {
				ok = false
				return
			}
			panic(r)
		}
	}()
	return e.selectField(base, name, x), true
}

func embedded(st *types.Struct, name string) bool {
	for i := 0; i < st.NumFields(); i++ {
		if st.Field(i).Name() == name {
			return st.Field(i).Embedded()
		}
	}
	return false
}

func (e *SpecEnv) index(base Val, idxExpr ast.Expr, x ast.Expr) Val {
	b := e.b()
	w := e.w()
	if base.t == nil {
		specFail("cannot index %s", exprString(x))
	}
	if base.typ == nil {
		// spec set: s[k]
		if strings.HasPrefix(string(base.t.sort), "(Array ") {
			k := e.eval(idxExpr)
			ks := arrayKeySort(base.t.sort)
			k = e.coerceSort(k, ks)
			return Val{t: b.Select(base.t, k.t), typ: nil}
		}
		specFail("cannot index %s", exprString(x))
	}
	switch u := base.typ.Underlying().(type) {
	case *types.Slice:
		i := e.coerce(e.eval(idxExpr), types.Typ[types.Int])
		loc := b.Elem(w.sbase(base.t), b.BVOp("bvadd", w.soff(base.t), i.t))
		return Val{t: e.cx.load(e.cur, loc, u.Elem()), typ: u.Elem(), loc: loc}
	case *types.Array:
		i := e.coerce(e.eval(idxExpr), types.Typ[types.Int])
		var loc *Term
		if base.loc != nil {
			loc = b.Elem(base.loc, i.t)
		}
		return Val{t: b.Select(base.t, i.t), typ: u.Elem(), loc: loc}
	case *types.Pointer:
		if at, ok := u.Elem().Underlying().(*types.Array); ok {
			i := e.coerce(e.eval(idxExpr), types.Typ[types.Int])
			loc := b.Elem(base.t, i.t)
			return Val{t: e.cx.load(e.cur, loc, at.Elem()), typ: at.Elem(), loc: loc}
		}
	case *types.Map:
		k := e.coerce(e.eval(idxExpr), u.Key())
		valH, domH, _ := w.mapHeapNames(u)
		vs := w.mapValSort(u)
		m := b.Select(e.cur.heap(e.cx, valH), base.t)
		d := b.Select(e.cur.heap(e.cx, domH), base.t)
		present := b.And(b.Not(b.IsNil(base.t)), b.Select(d, k.t))
		var zero *Term
		if vs == SBool && w.sortOf(u.Elem()) != SBool {
			zero = b.False()
			return Val{t: present, typ: types.Typ[types.Bool]}
		}
		zero = w.zero(u.Elem())
		return Val{t: b.Ite(present, b.Select(m, k.t), zero), typ: u.Elem()}
	}
	specFail("cannot index %s of type %s", exprString(x), base.typ)
	return Val{}
}

func (e *SpecEnv) coerceSort(v Val, s Sort) Val {
	if v.t != nil {
		if v.t.sort != s {
			specFail("sort mismatch: have %s want %s", v.t.sort, s)
		}
		return v
	}
	if v.konst != nil {
		if n, ok := s.IsBV(); ok {
			u, _ := constant.Uint64Val(constant.ToInt(v.konst))
			if constant.Sign(v.konst) < 0 {
				i, _ := constant.Int64Val(constant.ToInt(v.konst))
				u = uint64(i)
			}
			return Val{t: e.b().BV(u, n)}
		}
		if s == SInt {
			i, _ := constant.Int64Val(constant.ToInt(v.konst))
			return Val{t: e.b().Int(i)}
		}
	}
	specFail("cannot coerce to sort %s", s)
	return Val{}
}

func (e *SpecEnv) evalBinary(n *ast.BinaryExpr) Val {
	b := e.b()
	boolT := types.Typ[types.Bool]
	switch n.Op {
	case token.LAND:
		return Val{t: b.And(e.evalBool(n.X), e.evalBool(n.Y)), typ: boolT}
	case token.LOR:
		return Val{t: b.Or(e.evalBool(n.X), e.evalBool(n.Y)), typ: boolT}
	}
	x, y := e.eval(n.X), e.eval(n.Y)
	// nil comparisons
	if x.isNil || y.isNil {
		if x.isNil {
			x, y = y, x
		}
		if y.isNil && x.isNil {
			return Val{t: b.Bool(n.Op == token.EQL), typ: boolT}
		}
		var isnil *Term
		switch x.t.sort {
		case SLoc:
			isnil = b.IsNil(x.t)
		case SSlice:
			isnil = b.IsNil(e.w().sbase(x.t))
		case SIface:
			isnil = b.Eq(e.w().itype(x.t), b.Int(0))
		case SInt: // func values
			isnil = b.Eq(x.t, b.Int(0))
		default:
			specFail("nil comparison on sort %s", x.t.sort)
		}
		switch n.Op {
		case token.EQL:
			return Val{t: isnil, typ: boolT}
		case token.NEQ:
			return Val{t: b.Not(isnil), typ: boolT}
		}
		specFail("bad nil comparison")
	}
	// both untyped constants: fold
	if x.t == nil && y.t == nil && x.konst != nil && y.konst != nil {
		switch n.Op {
		case token.EQL, token.NEQ, token.LSS, token.LEQ, token.GTR, token.GEQ:
			return Val{t: b.Bool(constant.Compare(x.konst, n.Op, y.konst)), typ: boolT}
		case token.SHL, token.SHR:
			s, _ := constant.Uint64Val(y.konst)
			return Val{konst: constant.Shift(x.konst, n.Op, uint(s))}
		case token.QUO:
			return Val{konst: constant.BinaryOp(x.konst, token.QUO_ASSIGN, y.konst)}
		}
		return Val{konst: constant.BinaryOp(x.konst, n.Op, y.konst)}
	}
	// shifts: right operand independent
	if n.Op == token.SHL || n.Op == token.SHR {
		if x.t == nil {
			x = e.coerce(x, types.Typ[types.Int])
		}
		bits, _ := x.t.sort.IsBV()
		var sh *Term
		if y.t == nil {
			sh = e.coerceSort(y, x.t.sort).t
		} else {
			sh = b.Resize(y.t, bits, false)
		}
		op := "bvshl"
		if n.Op == token.SHR {
			op = "bvlshr"
			if isSigned(x.typ) {
				op = "bvashr"
			}
		}
		return Val{t: b.BVOp(op, x.t, sh), typ: x.typ}
	}
	// spec-sorted operands (typ == nil but term present)
	if x.t == nil {
		if y.typ != nil {
			x = e.coerce(x, y.typ)
		} else {
			x = e.coerceSort(x, y.t.sort)
		}
	}
	if y.t == nil {
		if x.typ != nil {
			y = e.coerce(y, x.typ)
		} else {
			y = e.coerceSort(y, x.t.sort)
		}
	}
	if x.t.sort != y.t.sort {
		specFail("operand sort mismatch in %s: %s vs %s", exprString(n), x.t.sort, y.t.sort)
	}
	typ := x.typ
	if typ == nil {
		typ = y.typ
	}
	signed := typ != nil && isSigned(typ)
	_, isBV := x.t.sort.IsBV()
	switch n.Op {
	case token.EQL:
		return Val{t: b.Eq(x.t, y.t), typ: boolT}
	case token.NEQ:
		return Val{t: b.Neq(x.t, y.t), typ: boolT}
	}
	if x.t.sort == SInt {
		op := map[token.Token]string{token.LSS: "<", token.LEQ: "<=", token.GTR: ">", token.GEQ: ">=", token.ADD: "+", token.SUB: "-", token.MUL: "*"}[n.Op]
		if op == "" {
			specFail("unsupported Int op %s", n.Op)
		}
		if n.Op == token.ADD || n.Op == token.SUB || n.Op == token.MUL {
			return Val{t: b.mk(op, SInt, x.t, y.t)}
		}
		return Val{t: b.mk(op, SBool, x.t, y.t), typ: boolT}
	}
	if !isBV {
		specFail("unsupported operator %s on sort %s", n.Op, x.t.sort)
	}
	cmp := func(u, s string) Val {
		if signed {
			return Val{t: b.BVCmp(s, x.t, y.t), typ: boolT}
		}
		return Val{t: b.BVCmp(u, x.t, y.t), typ: boolT}
	}
	switch n.Op {
	case token.LSS:
		return cmp("bvult", "bvslt")
	case token.LEQ:
		return cmp("bvule", "bvsle")
	case token.GTR:
		return cmp("bvugt", "bvsgt")
	case token.GEQ:
		return cmp("bvuge", "bvsge")
	case token.ADD:
		return Val{t: b.BVOp("bvadd", x.t, y.t), typ: typ}
	case token.SUB:
		return Val{t: b.BVOp("bvsub", x.t, y.t), typ: typ}
	case token.MUL:
		return Val{t: b.BVOp("bvmul", x.t, y.t), typ: typ}
	case token.QUO:
		if signed {
			return Val{t: b.BVOp("bvsdiv", x.t, y.t), typ: typ}
		}
		return Val{t: e.cx.udivrem(false, x.t, y.t), typ: typ}
	case token.REM:
		if signed {
			return Val{t: b.BVOp("bvsrem", x.t, y.t), typ: typ}
		}
		return Val{t: e.cx.udivrem(true, x.t, y.t), typ: typ}
	case token.AND:
		return Val{t: b.BVOp("bvand", x.t, y.t), typ: typ}
	case token.OR:
		return Val{t: b.BVOp("bvor", x.t, y.t), typ: typ}
	case token.XOR:
		return Val{t: b.BVOp("bvxor", x.t, y.t), typ: typ}
	case token.AND_NOT:
		return Val{t: b.BVOp("bvand", x.t, b.BVNot(y.t)), typ: typ}
	}
	specFail("unsupported binary op %s", n.Op)
	return Val{}
}

func (e *SpecEnv) evalCall(n *ast.CallExpr) Val {
	b := e.b()
	w := e.w()
	boolT := types.Typ[types.Bool]
	// conversion?
	if t := e.lookupType(n.Fun); t != nil && len(n.Args) == 1 {
		v := e.eval(n.Args[0])
		return e.convert(v, t)
	}
	name := ""
	switch f := n.Fun.(type) {
	case *ast.Ident:
		name = f.Name
	case *ast.SelectorExpr:
		// method-style pure calls are not supported; pkg.pure allowed
		if id, ok := f.X.(*ast.Ident); ok {
			name = id.Name + "." + f.Sel.Name
		}
	}
	argn := func(k int) {
		if len(n.Args) != k {
			specFail("%s expects %d arguments", name, k)
		}
	}
	switch name {
	case "old":
		argn(1)
		if e.old == nil {
			specFail("old() not available here")
		}
		return e.inState(e.old).eval(n.Args[0])
	case "sameArray":
		// sameArray(a, b): the two slices share their backing array
		argn(2)
		x, y := e.eval(n.Args[0]), e.eval(n.Args[1])
		if x.t == nil || y.t == nil || x.t.sort != SSlice || y.t.sort != SSlice {
			specFail("sameArray: two slices expected")
		}
		return Val{t: b.Eq(w.sbase(x.t), w.sbase(y.t)), typ: boolT}
	case "suffixOf":
		// suffixOf(a, b): a is what remains of b after cutting elements off its front (a == b[k:] for some k)
		argn(2)
		x, y := e.eval(n.Args[0]), e.eval(n.Args[1])
		if x.t == nil || y.t == nil || x.t.sort != SSlice || y.t.sort != SSlice {
			specFail("suffixOf: two slices expected")
		}
		return Val{t: b.And(b.Eq(w.sbase(x.t), w.sbase(y.t)), b.BVCmp("bvsge", w.soff(x.t), w.soff(y.t)), b.BVCmp("bvsle", w.slen(x.t), w.slen(y.t)),
			b.Eq(b.BVOp("bvadd", w.soff(x.t), w.slen(x.t)), b.BVOp("bvadd", w.soff(y.t), w.slen(y.t)))), typ: boolT}
	case "apart":
		// apart(p, s): the object p points to is not a view laid over the backing array of the byte slice s
		// (Go's type system guarantees it for every pointer that does not come from an unsafe cast)
		argn(2)
		x, y := e.eval(n.Args[0]), e.eval(n.Args[1])
		if x.t == nil || y.t == nil || x.t.sort != SLoc || y.t.sort != SSlice {
			specFail("apart(pointer, slice) expected")
		}
		under := func(l *Term) *Term {
			return b.And(b.mk("(_ is Elem)", SBool, l), b.Eq(b.App("ebase", SLoc, l), w.sbase(y.t)))
		}
		isFld := func(l *Term) *Term { return b.mk("(_ is Fld)", SBool, l) }
		fb := b.App("fbase", SLoc, x.t)
		fbb := b.App("fbase", SLoc, fb)
		// neither the memory itself nor (a field of) a struct view laid over it - the same two levels of views a
		// modifies entry elems(byteSlice) covers
		return Val{t: b.Not(b.Or(under(x.t), b.And(isFld(x.t), under(fb)), b.And(isFld(x.t), isFld(fb), under(fbb)))), typ: boolT}
	case "setEmpty":
		argn(0)
		return Val{t: b.ConstArray(SArray(SBV(64), SBool), b.False()), typ: pageSetType}
	case "setRange":
		// setRange(lo, hi): { p | lo <= p < hi }
		argn(2)
		lo := e.coerceSort(e.eval(n.Args[0]), SBV(64))
		hi := e.coerceSort(e.eval(n.Args[1]), SBV(64))
		return Val{t: e.cx.setComprehension(func(p *Term) *Term { return b.And(b.BVCmp("bvule", lo.t, p), b.BVCmp("bvult", p, hi.t)) }), typ: pageSetType}
	case "setRegion":
		// setRegion(r): pages of a region value
		argn(1)
		r := e.eval(n.Args[0])
		if r.t == nil || r.typ == nil || !isStructType(r.typ) {
			specFail("setRegion: region value expected")
		}
		si := w.structInfo(r.typ)
		_, ii, ok1 := si.field("id")
		_, ci, ok2 := si.field("count")
		if !ok1 || !ok2 {
			specFail("setRegion: not a region")
		}
		id := w.structField(si, r.t, ii)
		cnt := b.Resize(w.structField(si, r.t, ci), 64, false)
		return Val{t: e.cx.setComprehension(func(p *Term) *Term { return b.And(b.BVCmp("bvule", id, p), b.BVCmp("bvult", b.BVOp("bvsub", p, id), cnt)) }), typ: pageSetType}
	case "setUnion", "setMinus", "setInter":
		argn(2)
		x := e.evalSet(n.Args[0])
		y := e.evalSet(n.Args[1])
		return Val{t: e.cx.setComprehension(func(p *Term) *Term {
			switch name {
			case "setUnion":
				return b.Or(b.Select(x, p), b.Select(y, p))
			case "setMinus":
				return b.And(b.Select(x, p), b.Not(b.Select(y, p)))
			}
			return b.And(b.Select(x, p), b.Select(y, p))
		}), typ: pageSetType}
	case "setBelow":
		// setBelow(s, hi): members of s that are < hi
		argn(2)
		x := e.evalSet(n.Args[0])
		hi := e.coerceSort(e.eval(n.Args[1]), SBV(64))
		return Val{t: e.cx.setComprehension(func(p *Term) *Term { return b.And(b.Select(x, p), b.BVCmp("bvult", p, hi.t)) }), typ: pageSetType}
	case "subset", "disjoint":
		argn(2)
		x := e.evalSet(n.Args[0])
		y := e.evalSet(n.Args[1])
		pn := fmt.Sprintf("p?%d", e.cx.nextBound())
		p := b.BVar(pn, SBV(64))
		var body *Term
		if name == "subset" {
			body = b.Implies(b.Select(x, p), b.Select(y, p))
		} else {
			body = b.Not(b.And(b.Select(x, p), b.Select(y, p)))
		}
		return Val{t: b.Forall([]BoundVar{{pn, SBV(64)}}, body), typ: boolT}
	case "setAllIn":
		// setAllIn(s, lo, hi): every member p satisfies lo <= p < hi
		argn(3)
		x := e.evalSet(n.Args[0])
		lo := e.coerceSort(e.eval(n.Args[1]), SBV(64))
		hi := e.coerceSort(e.eval(n.Args[2]), SBV(64))
		pn := fmt.Sprintf("p?%d", e.cx.nextBound())
		p := b.BVar(pn, SBV(64))
		return Val{t: b.Forall([]BoundVar{{pn, SBV(64)}}, b.Implies(b.Select(x, p), b.And(b.BVCmp("bvule", lo.t, p), b.BVCmp("bvult", p, hi.t))), b.Select(x, p)), typ: boolT}
	case "visited":
		// visited(n): keys already produced by the n-th map iteration of the function
		argn(1)
		kv := e.eval(n.Args[0])
		if kv.konst == nil {
			specFail("visited(n): constant index required")
		}
		idx, _ := constant.Int64Val(kv.konst)
		if int(idx) >= len(e.ranges) {
			specFail("visited(%d): the function has executed only %d map iterations here", idx, len(e.ranges))
		}
		it := e.ranges[idx]
		return Val{t: b.Select(e.cur.heap(e.cx, it.visHeap), it.vis)}
	case "produced":
		// produced(n): number of keys the n-th map iteration of the function has produced so far
		argn(1)
		kv := e.eval(n.Args[0])
		if kv.konst == nil {
			specFail("produced(n): constant index required")
		}
		idx, _ := constant.Int64Val(kv.konst)
		if int(idx) >= len(e.ranges) || e.ranges[idx].cnt == nil {
			specFail("produced(%d): no such map iteration here", idx)
		}
		return Val{t: b.Select(e.cur.heap(e.cx, w.heapName(SBV(64))), e.ranges[idx].cnt), typ: types.Typ[types.Int]}
	case "iter":
		argn(1)
		if e.iter == nil {
			specFail("iter() only in loop step clauses")
		}
		// state at the head of the iteration; loop-carried variables (phis) take their head values too
		ie := e.inState(e.iter)
		hv := map[string]Val{}
		for k, v := range e.vars {
			if strings.HasSuffix(k, "_head") {
				hv[strings.TrimSuffix(k, "_head")] = v
			}
		}
		if len(hv) > 0 {
			ie = ie.with(hv)
		}
		return ie.eval(n.Args[0])
	case "ret":
		// ret(callee, result): result of the latest call of callee on this path
		argn(2)
		cid, ok1 := n.Args[0].(*ast.Ident)
		if !ok1 || e.rets == nil {
			specFail("ret(callee, result) not available here")
		}
		rs, ok := e.rets[cid.Name]
		if !ok {
			specFail("ret: no call of %s recorded", cid.Name)
		}
		idx := -1
		switch a := n.Args[1].(type) {
		case *ast.Ident:
			if m := e.retNames[cid.Name]; m != nil {
				if k, ok := m[a.Name]; ok {
					idx = k
				}
			}
		case *ast.BasicLit:
			fmt.Sscan(a.Value, &idx)
		}
		if idx < 0 || idx >= len(rs) {
			specFail("ret: unknown result of %s", cid.Name)
		}
		return rs[idx]
	case "called":
		// called(callee): the execution has passed through a call of callee
		argn(1)
		cid, ok1 := n.Args[0].(*ast.Ident)
		if !ok1 {
			specFail("called(callee)")
		}
		return Val{t: calledTerm(b, e.called, cid.Name), typ: boolT}
	case "pre":
		argn(1)
		if e.pre == nil {
			specFail("pre() only in loop invariants")
		}
		return e.inState(e.pre).eval(n.Args[0])
	case "imp":
		argn(2)
		return Val{t: b.Implies(e.evalBool(n.Args[0]), e.evalBool(n.Args[1])), typ: boolT}
	case "iff":
		argn(2)
		return Val{t: b.Eq(e.evalBool(n.Args[0]), e.evalBool(n.Args[1])), typ: boolT}
	case "ite":
		argn(3)
		c := e.evalBool(n.Args[0])
		x, y := e.eval(n.Args[1]), e.eval(n.Args[2])
		if x.t == nil && y.t != nil {
			x = e.coerce(x, y.typ)
		}
		if y.t == nil && x.t != nil {
			y = e.coerce(y, x.typ)
		}
		if x.t == nil {
			x, y = e.coerce(x, nil), e.coerce(y, nil)
		}
		return Val{t: b.Ite(c, x.t, y.t), typ: x.typ}
	case "len", "cap":
		argn(1)
		v := e.eval(n.Args[0])
		intT := types.Typ[types.Int]
		if v.typ != nil {
			switch u := v.typ.Underlying().(type) {
			case *types.Slice:
				if name == "len" {
					return Val{t: w.slen(v.t), typ: intT}
				}
				return Val{t: w.scap(v.t), typ: intT}
			case *types.Array:
				return Val{t: b.BV(uint64(u.Len()), 64), typ: intT}
			case *types.Map:
				_, _, lnH := w.mapHeapNames(u)
				return Val{t: b.Ite(b.IsNil(v.t), b.BV(0, 64), b.Select(e.cur.heap(e.cx, lnH), v.t)), typ: intT}
			case *types.Pointer:
				if at, ok := u.Elem().Underlying().(*types.Array); ok {
					return Val{t: b.BV(uint64(at.Len()), 64), typ: intT}
				}
			}
		}
		specFail("len/cap of unsupported %s", exprString(n.Args[0]))
	case "forall", "exists":
		// forall(i, lo, hi, body): i int, lo <= i < hi
		argn(4)
		id, ok := n.Args[0].(*ast.Ident)
		if !ok {
			specFail("%s: first argument must be an identifier", name)
		}
		intT := types.Typ[types.Int]
		lo := e.coerce(e.eval(n.Args[1]), intT)
		hi := e.coerce(e.eval(n.Args[2]), intT)
		e.depth++
		bvName := fmt.Sprintf("%s?%d", id.Name, e.cx.nextBound())
		bv := b.BVar(bvName, SBV(64))
		inner := e.with(map[string]Val{id.Name: {t: bv, typ: intT}})
		body := inner.evalBool(n.Args[3])
		rng := b.And(b.BVCmp("bvsle", lo.t, bv), b.BVCmp("bvslt", bv, hi.t))
		if name == "forall" {
			return Val{t: b.Forall([]BoundVar{{bvName, SBV(64)}}, b.Implies(rng, body)), typ: boolT}
		}
		return Val{t: b.Exists([]BoundVar{{bvName, SBV(64)}}, b.And(rng, body)), typ: boolT}
	case "forallPow2":
		// forallPow2(x, lo, hi, body): body for x = 2^lo .. 2^hi (x int), expanded
		argn(4)
		id, ok := n.Args[0].(*ast.Ident)
		if !ok {
			specFail("forallPow2: first argument must be an identifier")
		}
		lo := e.eval(n.Args[1])
		hi := e.eval(n.Args[2])
		if lo.konst == nil || hi.konst == nil {
			specFail("forallPow2: constant bounds required")
		}
		l, _ := constant.Int64Val(lo.konst)
		h, _ := constant.Int64Val(hi.konst)
		var cs []*Term
		for k := l; k <= h; k++ {
			inner := e.with(map[string]Val{id.Name: {t: b.BV(uint64(1)<<uint(k), 64), typ: types.Typ[types.Int]}})
			cs = append(cs, inner.evalBool(n.Args[3]))
		}
		return Val{t: b.And(cs...), typ: boolT}
	case "forallT", "existsT":
		// forallT(x, T, body): x ranges over all values of Go type T
		argn(3)
		id, ok := n.Args[0].(*ast.Ident)
		if !ok {
			specFail("%s: first argument must be an identifier", name)
		}
		t := e.lookupType(n.Args[1])
		if t == nil {
			specFail("%s: unknown type %s", name, exprString(n.Args[1]))
		}
		s := w.sortOf(t)
		bvName := fmt.Sprintf("%s?%d", id.Name, e.cx.nextBound())
		bv := b.BVar(bvName, s)
		inner := e.with(map[string]Val{id.Name: {t: bv, typ: t}})
		body := inner.evalBool(n.Args[2])
		if name == "forallT" {
			return Val{t: b.Forall([]BoundVar{{bvName, s}}, body), typ: boolT}
		}
		return Val{t: b.Exists([]BoundVar{{bvName, s}}, body), typ: boolT}
	case "isType":
		// isType(x, T): dynamic type of interface value x is T
		argn(2)
		v := e.eval(n.Args[0])
		t := e.lookupType(n.Args[1])
		if t == nil || v.t == nil || v.t.sort != SIface {
			specFail("isType(iface, T): bad arguments in %s", exprString(n))
		}
		return Val{t: b.Eq(w.itype(v.t), b.Int(int64(w.typeID(t)))), typ: boolT}
	case "has":
		// has(m, k): key present in map / page set
		argn(2)
		m := e.eval(n.Args[0])
		if m.typ != nil {
			if mt, ok := m.typ.Underlying().(*types.Map); ok {
				k := e.coerce(e.eval(n.Args[1]), mt.Key())
				_, domH, _ := w.mapHeapNames(mt)
				d := b.Select(e.cur.heap(e.cx, domH), m.t)
				return Val{t: b.And(b.Not(b.IsNil(m.t)), b.Select(d, k.t)), typ: boolT}
			}
		}
		if m.t != nil && strings.HasPrefix(string(m.t.sort), "(Array ") {
			k := e.coerceSort(e.eval(n.Args[1]), arrayKeySort(m.t.sort))
			return Val{t: b.Select(m.t, k.t), typ: boolT}
		}
		specFail("has: unsupported %s", exprString(n))
	case "dom":
		// dom(m): domain of a map as a set
		argn(1)
		m := e.eval(n.Args[0])
		mt, ok := m.typ.Underlying().(*types.Map)
		if !ok {
			specFail("dom of non-map")
		}
		_, domH, _ := w.mapHeapNames(mt)
		ks := w.sortOf(mt.Key())
		d := b.Select(e.cur.heap(e.cx, domH), m.t)
		return Val{t: b.Ite(b.IsNil(m.t), b.ConstArray(SArray(ks, SBool), b.False()), d)}
	case "unchanged":
		// unchanged(loc-expr, ...): value now equals value in old state
		if e.old == nil {
			specFail("unchanged() needs an old state")
		}
		var cs []*Term
		for _, a := range n.Args {
			nv := e.eval(a)
			ov := e.inState(e.old).eval(a)
			if nv.t == nil || ov.t == nil {
				specFail("unchanged: bad argument %s", exprString(a))
			}
			cs = append(cs, b.Eq(nv.t, ov.t))
		}
		return Val{t: b.And(cs...), typ: boolT}
	case "sameHeap":
		// sameHeap(): every heap equals the old heap (nothing at all was written)
		if e.old == nil {
			specFail("sameHeap() needs an old state")
		}
		return Val{t: e.cx.sameHeaps(e.cur, e.old), typ: boolT}
	case "u8At", "u16At", "u32At", "u64At":
		// little-endian cell laid over a byte slice at a byte offset (trusted view model)
		argn(2)
		s := e.eval(n.Args[0])
		if s.t == nil || s.t.sort != SSlice {
			specFail("%s: first argument must be a byte slice", name)
		}
		off := e.coerce(e.eval(n.Args[1]), types.Typ[types.Int])
		bits := map[string]int{"u8At": 8, "u16At": 16, "u32At": 32, "u64At": 64}[name]
		loc := b.Elem(w.sbase(s.t), b.BVOp("bvadd", w.soff(s.t), off.t))
		hn := w.heapName(SBV(bits))
		ut := map[int]types.Type{8: types.Typ[types.Uint8], 16: types.Typ[types.Uint16], 32: types.Typ[types.Uint32], 64: types.Typ[types.Uint64]}[bits]
		return Val{t: b.Select(e.cur.heap(e.cx, hn), loc), typ: ut, loc: loc}
	case "keptAll":
		// keptAll(T): no field of any object of struct type T differs from the old state
		argn(1)
		if e.old == nil {
			specFail("keptAll() needs an old state")
		}
		t := e.lookupType(n.Args[0])
		if t == nil || !isStructType(t) {
			specFail("keptAll(T): struct type expected in %s", exprString(n))
		}
		w.forceSorts(t)
		sorts := map[Sort]bool{}
		e.cx.leafSorts(t, sorts)
		var names []string
		for srt := range sorts {
			names = append(names, string(srt))
		}
		sortStrings(names)
		var cs []*Term
		for _, sn := range names {
			srt := Sort(sn)
			hn := w.heapName(srt)
			hc, ho := e.cur.heap(e.cx, hn), e.old.heap(e.cx, hn)
			if def(hc) == def(ho) {
				continue
			}
			ln := fmt.Sprintf("l?%d", e.cx.nextBound())
			l := b.BVar(ln, SLoc)
			in := e.cx.inside(l, t, srt, func(x *Term) *Term { return b.True() })
			cs = append(cs, b.Forall([]BoundVar{{ln, SLoc}}, b.Implies(in, b.Eq(b.Select(hc, l), b.Select(ho, l))), b.Select(hc, l)))
		}
		return Val{t: b.And(cs...), typ: boolT}
	case "viewStruct":
		// viewStruct(buf, T): the struct of type T laid over the bytes of buf (the view
		// bin.UnsafeCastStruct hands out: &buf[0] read as *T)
		argn(2)
		s := e.eval(n.Args[0])
		t := e.lookupType(n.Args[1])
		if s.t == nil || s.t.sort != SSlice || t == nil || !isStructType(t) {
			specFail("viewStruct(byteSlice, StructType): bad arguments in %s", exprString(n))
		}
		w.forceSorts(t)
		loc := b.Elem(w.sbase(s.t), w.soff(s.t))
		return Val{t: e.cx.load(e.cur, loc, t), typ: t, loc: loc}
	case "preserved":
		// preserved(): no pre-existing location changed (objects allocated meanwhile and
		// frame-exempt bookkeeping fields excepted)
		if e.old == nil {
			specFail("preserved() needs an old state")
		}
		return Val{t: e.cx.preserved(e.cur, e.old), typ: boolT}
	case "owner":
		// owner(p, T): the struct of type T in which the object p points to is embedded (p == &o.f)
		argn(2)
		v := e.eval(n.Args[0])
		t := e.lookupType(n.Args[1])
		if t == nil || v.t == nil || v.t.sort != SLoc {
			specFail("owner(ptr, T): bad arguments")
		}
		return Val{t: b.App("fbase", SLoc, v.t), typ: types.NewPointer(t)}
	case "fresh":
		argn(1)
		v := e.eval(n.Args[0])
		return Val{t: e.cx.isFreshLoc(v), typ: boolT}
	}
	// pure spec function
	if pf := e.cx.eng.lookupPure(e.pkg, name); pf != nil {
		return e.callPure(pf, n)
	}
	if uf := e.cx.eng.lookupUninterp(e.pkg, name); uf != nil {
		return e.callUninterp(uf, n)
	}
	specFail("unknown spec function %s", exprString(n.Fun))
	return Val{}
}

// evalSet evaluates an expression denoting a set of page ids: a PageSet value,
// or a Go map keyed by page ids (its domain).
func (e *SpecEnv) evalSet(x ast.Expr) *Term {
	v := e.eval(x)
	b := e.b()
	if v.t != nil && v.t.sort == SArray(SBV(64), SBool) {
		return v.t
	}
	if v.typ != nil {
		if mt, ok := v.typ.Underlying().(*types.Map); ok && e.w().sortOf(mt.Key()) == SBV(64) {
			_, domH, _ := e.w().mapHeapNames(mt)
			d := b.Select(e.cur.heap(e.cx, domH), v.t)
			return b.Ite(b.IsNil(v.t), b.ConstArray(SArray(SBV(64), SBool), b.False()), d)
		}
	}
	specFail("set of page ids expected: %s", exprString(x))
	return nil
}

func (e *SpecEnv) callUninterp(uf *Uninterp, n *ast.CallExpr) Val {
	w := e.w()
	pkg := e.cx.eng.typesPackage(uf.PkgPath)
	penv := &SpecEnv{cx: e.cx, pkg: pkg}
	var args []*Term
	var sorts []string
	i := 0
	for _, fld := range uf.Decl.Type.Params.List {
		pt := penv.lookupType(fld.Type)
		if pt == nil {
			specFail("uninterp %s: unknown parameter type", uf.Decl.Name.Name)
		}
		cnt := len(fld.Names)
		if cnt == 0 {
			cnt = 1
		}
		for k := 0; k < cnt; k++ {
			if i >= len(n.Args) {
				specFail("too few arguments for %s", uf.Decl.Name.Name)
			}
			v := e.eval(n.Args[i])
			if v.isNil {
				v = Val{t: w.zero(pt), typ: pt}
			} else {
				v = e.coerce(v, pt)
			}
			if v.t.sort != w.sortOf(pt) {
				specFail("argument %d of %s: sort %s, want %s", i, uf.Decl.Name.Name, v.t.sort, w.sortOf(pt))
			}
			args = append(args, v.t)
			sorts = append(sorts, string(w.sortOf(pt)))
			i++
		}
	}
	if i != len(n.Args) {
		specFail("wrong number of arguments for %s", uf.Decl.Name.Name)
	}
	if uf.Decl.Type.Results == nil || len(uf.Decl.Type.Results.List) != 1 {
		specFail("uninterp %s needs one result", uf.Decl.Name.Name)
	}
	rt := penv.lookupType(uf.Decl.Type.Results.List[0].Type)
	if rt == nil {
		specFail("uninterp %s: unknown result type", uf.Decl.Name.Name)
	}
	w.forceSorts(rt)
	rs := w.sortOf(rt)
	nm := "uf_" + sanitize(uf.Decl.Name.Name)
	w.uninterp[nm] = "(" + strings.Join(sorts, " ") + ") " + string(rs)
	if len(args) == 0 {
		return Val{t: e.b().mk("("+nm+")", rs), typ: rt}
	}
	return Val{t: e.b().mk(nm, rs, args...), typ: rt}
}

func (e *SpecEnv) compositeLit(n *ast.CompositeLit) Val {
	w := e.w()
	t := e.lookupType(n.Type)
	if t == nil {
		specFail("unknown type in composite literal %s", exprString(n.Type))
	}
	if !isStructType(t) {
		specFail("only struct composite literals are supported")
	}
	si := w.structInfo(t)
	args := make([]*Term, len(si.Fields))
	for i, f := range si.Fields {
		args[i] = w.zero(f.Type)
	}
	for _, el := range n.Elts {
		kv, ok := el.(*ast.KeyValueExpr)
		if !ok {
			specFail("composite literal needs field: value")
		}
		id, ok := kv.Key.(*ast.Ident)
		if !ok {
			specFail("composite literal key")
		}
		f, i, ok := si.field(id.Name)
		if !ok {
			specFail("no field %s", id.Name)
		}
		v := e.eval(kv.Value)
		if v.isNil {
			v = Val{t: w.zero(f.Type), typ: f.Type}
		}
		v = e.coerce(v, f.Type)
		if v.t.sort != w.sortOf(f.Type) {
			specFail("field %s: sort %s want %s", id.Name, v.t.sort, w.sortOf(f.Type))
		}
		args[i] = v.t
	}
	return Val{t: w.mkStruct(si, args), typ: t}
}

func (e *SpecEnv) callPure(pf *PureFunc, n *ast.CallExpr) Val {
	if e.depth > 40 {
		specFail("pure function expansion too deep (recursion?)")
	}
	pkg := e.cx.eng.typesPackage(pf.PkgPath)
	penv := &SpecEnv{cx: e.cx, pkg: pkg, vars: map[string]Val{}, cur: e.cur, old: e.old, pre: e.pre, depth: e.depth + 1}
	i := 0
	for _, fld := range pf.Decl.Type.Params.List {
		pt := penv.lookupType(fld.Type)
		for _, nm := range fld.Names {
			if i >= len(n.Args) {
				specFail("too few arguments for %s", pf.Decl.Name.Name)
			}
			v := e.eval(n.Args[i])
			if pt != nil {
				if v.isNil {
					v = Val{t: e.w().zero(pt), typ: pt}
				} else {
					v = e.coerce(v, pt)
					if v.t.sort != e.w().sortOf(pt) {
						specFail("argument %d of %s: sort %s, want %s", i, pf.Decl.Name.Name, v.t.sort, e.w().sortOf(pt))
					}
					v.typ = pt
				}
			} else if v.t == nil {
				v = e.coerce(v, nil)
			}
			penv.vars[nm.Name] = v
			i++
		}
	}
	if i != len(n.Args) {
		specFail("wrong number of arguments for %s", pf.Decl.Name.Name)
	}
	r := penv.eval(pf.Body)
	if pf.Decl.Type.Results != nil && len(pf.Decl.Type.Results.List) == 1 {
		if rt := penv.lookupType(pf.Decl.Type.Results.List[0].Type); rt != nil {
			r = penv.coerce(r, rt)
			r.typ = rt
		} else if r.t == nil {
			r = penv.coerce(r, nil)
		}
	}
	return r
}

func (e *SpecEnv) convert(v Val, t types.Type) Val {
	b := e.b()
	w := e.w()
	if v.isNil {
		return Val{t: w.zero(t), typ: t}
	}
	if v.t == nil && v.konst != nil {
		if _, isIface := t.Underlying().(*types.Interface); isIface {
			specFail("convert untyped constant to interface: give it a type first")
		}
		return e.coerce(v, t)
	}
	ts := w.sortOf(t)
	if _, isIface := t.Underlying().(*types.Interface); isIface {
		if v.t.sort == SIface {
			return Val{t: v.t, typ: t}
		}
		return Val{t: e.cx.box(v), typ: t}
	}
	if n, ok := ts.IsBV(); ok {
		if _, ok2 := v.t.sort.IsBV(); ok2 {
			return Val{t: b.Resize(v.t, n, v.typ != nil && isSigned(v.typ)), typ: t}
		}
	}
	if ts == v.t.sort {
		return Val{t: v.t, typ: t, loc: v.loc}
	}
	specFail("unsupported conversion to %s", t)
	return Val{}
}

// evalLocs evaluates a modifies-list entry to a set of (location, type) pairs.
// Forms: x.f (field), *p (whole object), elems(s) (all elements of a slice),
// s[i] (one element), mapOf(m) (contents of a map), all(T) is not supported.
type ModLoc struct {
	all   bool       // everything: all heaps become arbitrary
	loc   *Term      // single location (with typ: all leaves below it)
	typ   types.Type // type stored at loc
	elems *Term      // slice base: all elements (any index) of this backing array
	mapp  *Term      // map reference: its contents
	mtyp  *types.Map
	allOf types.Type // all(T): the fields of every object of struct type T (wherever it lives), or every cell of leaf type T
	path  []string   // all(T).f.g: only that field of every object of type T (typ is the type of the field)
	text  string
}

func (e *SpecEnv) evalLocs(x ast.Expr) []ModLoc {
	if id, ok := x.(*ast.Ident); ok && id.Name == "everything" {
		return []ModLoc{{all: true, text: "everything"}}
	}
	if call, ok := x.(*ast.CallExpr); ok {
		if id, ok := call.Fun.(*ast.Ident); ok {
			switch id.Name {
			case "elems":
				v := e.eval(call.Args[0])
				if v.typ == nil {
					specFail("elems: untyped")
				}
				if st, ok := v.typ.Underlying().(*types.Slice); ok {
					return []ModLoc{{elems: e.w().sbase(v.t), typ: st.Elem(), text: exprString(x)}}
				}
				specFail("elems of non-slice %s", exprString(x))
			case "all":
				if len(call.Args) != 1 {
					specFail("all(T)")
				}
				t := e.lookupType(call.Args[0])
				if t == nil {
					specFail("all(T): unknown type %s", exprString(call.Args[0]))
				}
				e.w().forceSorts(t)
				return []ModLoc{{allOf: t, typ: t, text: exprString(x)}}
			case "mapOf":
				v := e.eval(call.Args[0])
				if mt, ok := v.typ.Underlying().(*types.Map); ok {
					return []ModLoc{{mapp: v.t, mtyp: mt, text: exprString(x)}}
				}
				specFail("mapOf of non-map %s", exprString(x))
			case "old":
				if e.old == nil {
					specFail("old() not available")
				}
				return e.inState(e.old).evalLocs(call.Args[0])
			}
		}
	}
	if sel, ok := x.(*ast.SelectorExpr); ok {
		// all(T).f.g: the field f.g of every object of type T
		var path []string
		var cur ast.Expr = sel
		for {
			s2, ok := cur.(*ast.SelectorExpr)
			if !ok {
				break
			}
			path = append([]string{s2.Sel.Name}, path...)
			cur = s2.X
		}
		if call, ok := cur.(*ast.CallExpr); ok {
			if id, ok := call.Fun.(*ast.Ident); ok && id.Name == "all" && len(call.Args) == 1 {
				t := e.lookupType(call.Args[0])
				if t == nil {
					specFail("all(T): unknown type %s", exprString(call.Args[0]))
				}
				e.w().forceSorts(t)
				ft := t
				for _, nm := range path {
					if _, isStruct := ft.Underlying().(*types.Struct); !isStruct {
						specFail("%s: %s is not a struct", exprString(x), ft)
					}
					si := e.w().structInfo(ft)
					found := false
					for _, f := range append(append([]FieldInfo{}, si.Fields...), si.Ghosts...) {
						if f.Name == nm {
							ft, found = f.Type, true
							break
						}
					}
					if !found {
						specFail("%s: no field %s", exprString(x), nm)
					}
				}
				return []ModLoc{{allOf: t, path: path, typ: ft, text: exprString(x)}}
			}
		}
	}
	if st, ok := x.(*ast.StarExpr); ok {
		p := e.eval(st.X)
		pt, ok := p.typ.Underlying().(*types.Pointer)
		if !ok {
			specFail("modifies *%s: not a pointer", exprString(st.X))
		}
		return []ModLoc{{loc: p.t, typ: pt.Elem(), text: exprString(x)}}
	}
	v := e.eval(x)
	if v.loc == nil {
		specFail("modifies: %s is not a location", exprString(x))
	}
	out := []ModLoc{{loc: v.loc, typ: v.typ, text: exprString(x)}}
	// a map-typed field: modifying the field also allows modifying the map contents? no: explicit mapOf.
	return out
}
