package main

// Hash-consed SMT terms with light syntactic simplification.
//
// Every term carries its SMT sort. A term may have a name: it is then printed
// by name and its definition is emitted once (define-fun) in creation order.

import (
	"fmt"
	"sort"
	"strconv"
	"strings"
)

type Sort string

const (
	SBool  Sort = "Bool"
	SInt   Sort = "Int"
	SLoc   Sort = "Loc"
	SSlice Sort = "Slice"
	SIface Sort = "Iface"
	SStr   Sort = "Int" // strings are abstracted to integer ids
	SFunc  Sort = "Int" // function values: abstract ids
	SReal  Sort = "Real"
)

func SBV(n int) Sort { return Sort(fmt.Sprintf("(_ BitVec %d)", n)) }

func (s Sort) IsBV() (int, bool) {
	str := string(s)
	if strings.HasPrefix(str, "(_ BitVec ") {
		n, _ := strconv.Atoi(strings.TrimSuffix(strings.TrimPrefix(str, "(_ BitVec "), ")"))
		return n, true
	}
	return 0, false
}

func SArray(k, v Sort) Sort { return Sort("(Array " + string(k) + " " + string(v) + ")") }

type Term struct {
	op   string // operator / symbol / literal
	args []*Term
	sort Sort
	id   int
	name string // if set: printed by name, defined once
	// decl: this is a declared constant (free symbol)
	decl bool
}

type TermBank struct {
	tab   map[string]*Term
	next  int
	order []*Term // named/declared terms in creation order
	fresh map[string]int
	ctors map[string][]string // constructor -> selectors
	sels  map[string]bool
}

func NewBank() *TermBank {
	b := &TermBank{tab: map[string]*Term{}, fresh: map[string]int{}, ctors: map[string][]string{}, sels: map[string]bool{}}
	b.registerCtor("mk-slice", []string{"sbase", "soff", "slen", "scap"})
	b.registerCtor("mk-iface", []string{"itype", "iptr", "inum"})
	return b
}

func (b *TermBank) key(op string, sort Sort, args []*Term) string {
	var sb strings.Builder
	sb.WriteString(op)
	sb.WriteByte('|')
	sb.WriteString(string(sort))
	for _, a := range args {
		sb.WriteByte(',')
		sb.WriteString(strconv.Itoa(a.id))
	}
	return sb.String()
}

func (b *TermBank) mk(op string, sort Sort, args ...*Term) *Term {
	for _, a := range args {
		if a == nil {
			panic("nil arg in term " + op)
		}
	}
	k := b.key(op, sort, args)
	if t, ok := b.tab[k]; ok {
		return t
	}
	b.next++
	t := &Term{op: op, args: args, sort: sort, id: b.next}
	b.tab[k] = t
	return t
}

// Mark returns the current length of the definition order (prefix marker).
func (b *TermBank) Mark() int { return len(b.order) }

// Const declares a fresh free constant.
func (b *TermBank) Const(prefix string, sort Sort) *Term {
	b.fresh[prefix]++
	nm := fmt.Sprintf("%s!%d", sanitize(prefix), b.fresh[prefix])
	b.next++
	t := &Term{op: nm, sort: sort, id: b.next, decl: true, name: nm}
	b.order = append(b.order, t)
	return t
}

// Name gives a term a name so that it is printed once. Literals, constants and
// already named terms are returned unchanged.
func (b *TermBank) Name(prefix string, t *Term) *Term {
	if t.name != "" || len(t.args) == 0 {
		return t
	}
	b.fresh[prefix]++
	nm := fmt.Sprintf("%s!%d", sanitize(prefix), b.fresh[prefix])
	b.next++
	n := &Term{op: nm, sort: t.sort, id: b.next, name: nm, args: []*Term{t}}
	b.order = append(b.order, n)
	return n
}

func sanitize(s string) string {
	var sb strings.Builder
	for _, r := range s {
		switch {
		case r >= 'a' && r <= 'z', r >= 'A' && r <= 'Z', r >= '0' && r <= '9', r == '_', r == '.':
			sb.WriteRune(r)
		default:
			sb.WriteByte('_')
		}
	}
	if sb.Len() == 0 {
		return "v"
	}
	return sb.String()
}

// def returns the definition behind a named (non-declared) term, else t.
func def(t *Term) *Term {
	for t.name != "" && !t.decl && len(t.args) == 1 {
		t = t.args[0]
	}
	return t
}

// ---------- printing ----------

func (t *Term) String() string {
	var sb strings.Builder
	t.write(&sb)
	return sb.String()
}

func (t *Term) write(sb *strings.Builder) {
	if t.name != "" {
		sb.WriteString(quoteSym(t.name))
		return
	}
	if len(t.args) == 0 {
		sb.WriteString(t.op)
		return
	}
	if t.writeSpecial(sb) {
		return
	}
	sb.WriteByte('(')
	sb.WriteString(t.op)
	for _, a := range t.args {
		sb.WriteByte(' ')
		a.write(sb)
	}
	sb.WriteByte(')')
}

func quoteSym(s string) string {
	return "|" + s + "|"
}

// Definitions prints declarations/definitions for order[from:to].
func (b *TermBank) Definitions(from, to int, sb *strings.Builder) {
	for _, t := range b.order[from:to] {
		if t.decl {
			fmt.Fprintf(sb, "(declare-fun %s () %s)\n", quoteSym(t.name), t.sort)
		} else {
			sb.WriteString("(define-fun ")
			sb.WriteString(quoteSym(t.name))
			sb.WriteString(" () ")
			sb.WriteString(string(t.sort))
			sb.WriteByte(' ')
			t.args[0].write(sb)
			sb.WriteString(")\n")
		}
	}
}

// ---------- boolean ----------

func (b *TermBank) True() *Term  { return b.mk("true", SBool) }
func (b *TermBank) False() *Term { return b.mk("false", SBool) }
func (b *TermBank) Bool(v bool) *Term {
	if v {
		return b.True()
	}
	return b.False()
}

func isTrue(t *Term) bool  { return def(t).op == "true" && len(def(t).args) == 0 }
func isFalse(t *Term) bool { return def(t).op == "false" && len(def(t).args) == 0 }

func (b *TermBank) Not(t *Term) *Term {
	d := def(t)
	switch {
	case isTrue(t):
		return b.False()
	case isFalse(t):
		return b.True()
	case d.op == "not" && len(d.args) == 1 && t.name == "":
		return d.args[0]
	}
	return b.mk("not", SBool, t)
}

func (b *TermBank) And(ts ...*Term) *Term {
	var out []*Term
	seen := map[int]bool{}
	for _, t := range ts {
		if isTrue(t) {
			continue
		}
		if isFalse(t) {
			return b.False()
		}
		if t.name == "" && t.op == "and" {
			for _, a := range t.args {
				if !seen[a.id] {
					seen[a.id] = true
					out = append(out, a)
				}
			}
			continue
		}
		if !seen[t.id] {
			seen[t.id] = true
			out = append(out, t)
		}
	}
	switch len(out) {
	case 0:
		return b.True()
	case 1:
		return out[0]
	}
	return b.mk("and", SBool, out...)
}

func (b *TermBank) Or(ts ...*Term) *Term {
	var out []*Term
	seen := map[int]bool{}
	for _, t := range ts {
		if isFalse(t) {
			continue
		}
		if isTrue(t) {
			return b.True()
		}
		if t.name == "" && t.op == "or" {
			for _, a := range t.args {
				if !seen[a.id] {
					seen[a.id] = true
					out = append(out, a)
				}
			}
			continue
		}
		if !seen[t.id] {
			seen[t.id] = true
			out = append(out, t)
		}
	}
	switch len(out) {
	case 0:
		return b.False()
	case 1:
		return out[0]
	}
	return b.mk("or", SBool, out...)
}

func (b *TermBank) Implies(a, c *Term) *Term {
	if isTrue(a) {
		return c
	}
	if isFalse(a) || isTrue(c) {
		return b.True()
	}
	if isFalse(c) {
		return b.Not(a)
	}
	return b.mk("=>", SBool, a, c)
}

func (b *TermBank) Ite(c, x, y *Term) *Term {
	if isTrue(c) {
		return x
	}
	if isFalse(c) {
		return y
	}
	if x == y {
		return x
	}
	if x.sort != y.sort {
		panic(fmt.Sprintf("ite sort mismatch %s vs %s (%s | %s)", x.sort, y.sort, x, y))
	}
	if x.sort == SBool {
		if isTrue(x) && isFalse(y) {
			return c
		}
		if isFalse(x) && isTrue(y) {
			return b.Not(c)
		}
	}
	return b.mk("ite", x.sort, c, x, y)
}

func (b *TermBank) Eq(x, y *Term) *Term {
	if x == y {
		return b.True()
	}
	if x.sort != y.sort {
		panic(fmt.Sprintf("eq sort mismatch %s vs %s (%s | %s)", x.sort, y.sort, x, y))
	}
	dx, dy := def(x), def(y)
	if dx == dy {
		return b.True()
	}
	if isLit(dx) && isLit(dy) {
		return b.Bool(dx.op == dy.op)
	}
	if x.sort == SLoc {
		switch locDistinct(x, y) {
		case 1:
			return b.False()
		}
	}
	if x.sort == SBool {
		if isTrue(x) {
			return y
		}
		if isTrue(y) {
			return x
		}
		if isFalse(x) {
			return b.Not(y)
		}
		if isFalse(y) {
			return b.Not(x)
		}
	}
	// canonical order
	if x.id > y.id {
		x, y = y, x
	}
	return b.mk("=", SBool, x, y)
}

func (b *TermBank) Neq(x, y *Term) *Term { return b.Not(b.Eq(x, y)) }

func isLit(t *Term) bool {
	if len(t.args) != 0 || t.decl || t.name != "" {
		return false
	}
	if strings.HasPrefix(t.op, "#x") || strings.HasPrefix(t.op, "#b") {
		return true
	}
	if t.op == "true" || t.op == "false" {
		return true
	}
	if t.sort == SInt {
		_, err := strconv.ParseInt(t.op, 10, 64)
		return err == nil
	}
	return false
}

// ---------- integers (Int sort, for ids) ----------

func (b *TermBank) Int(v int64) *Term {
	if v < 0 {
		return b.mk(fmt.Sprintf("(- %d)", -v), SInt)
	}
	return b.mk(strconv.FormatInt(v, 10), SInt)
}

// ---------- bit-vectors ----------

func (b *TermBank) BV(v uint64, bits int) *Term {
	if bits < 64 {
		v &= (uint64(1) << uint(bits)) - 1
	}
	if bits%4 == 0 {
		return b.mk(fmt.Sprintf("#x%0*x", bits/4, v), SBV(bits))
	}
	return b.mk(fmt.Sprintf("#b%0*b", bits, v), SBV(bits))
}

func bvLit(t *Term) (uint64, bool) {
	t = def(t)
	if len(t.args) != 0 || t.decl {
		return 0, false
	}
	if strings.HasPrefix(t.op, "#x") {
		v, err := strconv.ParseUint(t.op[2:], 16, 64)
		return v, err == nil
	}
	if strings.HasPrefix(t.op, "#b") {
		v, err := strconv.ParseUint(t.op[2:], 2, 64)
		return v, err == nil
	}
	return 0, false
}

func (b *TermBank) BVOp(op string, x, y *Term) *Term {
	if x.sort != y.sort {
		panic(fmt.Sprintf("bvop %s sort mismatch %s vs %s: %s | %s", op, x.sort, y.sort, x, y))
	}
	n, _ := x.sort.IsBV()
	xv, xl := bvLit(x)
	yv, yl := bvLit(y)
	mask := ^uint64(0)
	if n < 64 {
		mask = (uint64(1) << uint(n)) - 1
	}
	if xl && yl {
		switch op {
		case "bvadd":
			return b.BV((xv+yv)&mask, n)
		case "bvsub":
			return b.BV((xv-yv)&mask, n)
		case "bvmul":
			return b.BV((xv*yv)&mask, n)
		case "bvand":
			return b.BV(xv&yv, n)
		case "bvor":
			return b.BV(xv|yv, n)
		case "bvxor":
			return b.BV(xv^yv, n)
		case "bvshl":
			if yv >= uint64(n) {
				return b.BV(0, n)
			}
			return b.BV((xv<<yv)&mask, n)
		case "bvlshr":
			if yv >= uint64(n) {
				return b.BV(0, n)
			}
			return b.BV(xv>>yv, n)
		}
	}
	switch op {
	case "bvadd":
		if xl && xv == 0 {
			return y
		}
		if yl && yv == 0 {
			return x
		}
	case "bvsub":
		if yl && yv == 0 {
			return x
		}
		if x == y {
			return b.BV(0, n)
		}
	case "bvmul":
		if xl && xv == 1 {
			return y
		}
		if yl && yv == 1 {
			return x
		}
	case "bvor", "bvxor":
		if xl && xv == 0 {
			return y
		}
		if yl && yv == 0 {
			return x
		}
	case "bvshl", "bvlshr", "bvashr":
		if yl && yv == 0 {
			return x
		}
	}
	return b.mk(op, x.sort, x, y)
}

func (b *TermBank) BVCmp(op string, x, y *Term) *Term {
	if x.sort != y.sort {
		panic(fmt.Sprintf("bvcmp %s sort mismatch %s vs %s: %s | %s", op, x.sort, y.sort, x, y))
	}
	xv, xl := bvLit(x)
	yv, yl := bvLit(y)
	n, _ := x.sort.IsBV()
	if xl && yl {
		sx, sy := signExt(xv, n), signExt(yv, n)
		switch op {
		case "bvult":
			return b.Bool(xv < yv)
		case "bvule":
			return b.Bool(xv <= yv)
		case "bvugt":
			return b.Bool(xv > yv)
		case "bvuge":
			return b.Bool(xv >= yv)
		case "bvslt":
			return b.Bool(sx < sy)
		case "bvsle":
			return b.Bool(sx <= sy)
		case "bvsgt":
			return b.Bool(sx > sy)
		case "bvsge":
			return b.Bool(sx >= sy)
		}
	}
	if x == y {
		switch op {
		case "bvule", "bvuge", "bvsle", "bvsge":
			return b.True()
		default:
			return b.False()
		}
	}
	if op == "bvuge" && yl && yv == 0 {
		return b.True()
	}
	if op == "bvult" && yl && yv == 0 {
		return b.False()
	}
	return b.mk(op, SBool, x, y)
}

func signExt(v uint64, n int) int64 {
	if n >= 64 {
		return int64(v)
	}
	if v&(uint64(1)<<uint(n-1)) != 0 {
		return int64(v | ^((uint64(1) << uint(n)) - 1))
	}
	return int64(v)
}

func (b *TermBank) BVNeg(x *Term) *Term { return b.mk("bvneg", x.sort, x) }
func (b *TermBank) BVNot(x *Term) *Term { return b.mk("bvnot", x.sort, x) }

// Resize converts a bit-vector to another width (truncate, zero- or sign-extend).
func (b *TermBank) Resize(x *Term, to int, signed bool) *Term {
	from, ok := x.sort.IsBV()
	if !ok {
		panic("resize of non-bv " + x.String() + " : " + string(x.sort))
	}
	if from == to {
		return x
	}
	if v, ok := bvLit(x); ok {
		if to < from {
			return b.BV(v, to)
		}
		if signed {
			return b.BV(uint64(signExt(v, from)), to)
		}
		return b.BV(v, to)
	}
	if to < from {
		return b.mk(fmt.Sprintf("(_ extract %d 0)", to-1), SBV(to), x)
	}
	if signed {
		return b.mk(fmt.Sprintf("(_ sign_extend %d)", to-from), SBV(to), x)
	}
	return b.mk(fmt.Sprintf("(_ zero_extend %d)", to-from), SBV(to), x)
}

// ---------- locations ----------

func (b *TermBank) Nil() *Term          { return b.mk("Nil", SLoc) }
func (b *TermBank) NewObj(k int) *Term  { return b.mk("New", SLoc, b.Int(int64(k))) }
func (b *TermBank) Glob(k int) *Term    { return b.mk("Glob", SLoc, b.Int(int64(k))) }
func (b *TermBank) Fld(base *Term, fid int) *Term {
	return b.mk("Fld", SLoc, base, b.Int(int64(fid)))
}
func (b *TermBank) Elem(base, idx *Term) *Term { return b.mk("Elem", SLoc, base, idx) }

func (b *TermBank) IsNil(l *Term) *Term { return b.Eq(l, b.Nil()) }

// locDistinct: 1 = syntactically distinct, 0 = unknown, -1 = same.
func locDistinct(x, y *Term) int {
	x, y = def(x), def(y)
	if x == y {
		return -1
	}
	cx, cy := locCtor(x), locCtor(y)
	if cx == "" || cy == "" {
		return 0
	}
	if cx != cy {
		return 1
	}
	switch cx {
	case "Nil":
		return -1
	case "New", "Glob":
		if x.args[0] != y.args[0] {
			return 1
		}
		return -1
	case "Fld":
		if x.args[1] != y.args[1] {
			return 1
		}
		return locDistinct(x.args[0], y.args[0])
	case "Elem":
		if locDistinct(x.args[0], y.args[0]) == 1 {
			return 1
		}
		xv, xl := bvLit(x.args[1])
		yv, yl := bvLit(y.args[1])
		if xl && yl && xv != yv {
			return 1
		}
		return 0
	}
	return 0
}

func locCtor(t *Term) string {
	switch t.op {
	case "Nil", "New", "Glob", "Fld", "Elem":
		if t.name == "" {
			return t.op
		}
	}
	return ""
}

// ---------- arrays ----------

func (b *TermBank) Select(a, i *Term) *Term {
	vs := arrayValSort(a.sort)
	cur := a
	for depth := 0; depth < 64; depth++ {
		d := def(cur)
		if d.op == "store" && len(d.args) == 3 {
			if d.args[1].sort == SLoc {
				switch locDistinct(d.args[1], i) {
				case -1:
					return d.args[2]
				case 1:
					cur = d.args[0]
					continue
				}
			} else {
				if def(d.args[1]) == def(i) {
					return d.args[2]
				}
				xv, xl := bvLit(d.args[1])
				yv, yl := bvLit(i)
				if xl && yl && xv != yv {
					cur = d.args[0]
					continue
				}
			}
		}
		if d.op == "ite" && len(d.args) == 3 && depth == 0 {
			// no distribution; leave to solver
		}
		break
	}
	return b.mk("select", vs, cur, i)
}

func (b *TermBank) Store(a, i, v *Term) *Term {
	if arrayValSort(a.sort) != v.sort {
		panic(fmt.Sprintf("store sort mismatch: array %s value %s (%s)", a.sort, v.sort, v))
	}
	return b.mk("store", a.sort, a, i, v)
}

func (b *TermBank) ConstArray(s Sort, v *Term) *Term {
	return b.mk("(as const "+string(s)+")", s, v)
}

func arrayValSort(s Sort) Sort {
	// "(Array K V)" -> V ; K may itself be parenthesised
	str := strings.TrimSuffix(strings.TrimPrefix(string(s), "(Array "), ")")
	// split at top-level space
	depth := 0
	for i, r := range str {
		switch r {
		case '(':
			depth++
		case ')':
			depth--
		case ' ':
			if depth == 0 {
				return Sort(str[i+1:])
			}
		}
	}
	panic("not an array sort: " + string(s))
}

func arrayKeySort(s Sort) Sort {
	str := strings.TrimSuffix(strings.TrimPrefix(string(s), "(Array "), ")")
	depth := 0
	for i, r := range str {
		switch r {
		case '(':
			depth++
		case ')':
			depth--
		case ' ':
			if depth == 0 {
				return Sort(str[:i])
			}
		}
	}
	panic("not an array sort: " + string(s))
}

// ---------- generic application ----------

func (b *TermBank) App(op string, sort Sort, args ...*Term) *Term {
	// selector over constructor simplification
	if len(args) == 1 {
		d := def(args[0])
		if d.name == "" && len(d.args) > 0 {
			if sels, ok := b.ctors[d.op]; ok {
				for i, s := range sels {
					if s == op && i < len(d.args) {
						return d.args[i]
					}
				}
			}
		}
		if d.op == "ite" && len(d.args) == 3 && d.name == "" {
			if _, ok := b.sels[op]; ok {
				// push selector into ite of constructors when both sides simplify
				x := b.App(op, sort, d.args[1])
				y := b.App(op, sort, d.args[2])
				if (x.op != op || y.op != op) && x.sort == y.sort {
					return b.Ite(d.args[0], x, y)
				}
			}
		}
	}
	return b.mk(op, sort, args...)
}

func (b *TermBank) registerCtor(ctor string, sels []string) {
	b.ctors[ctor] = sels
	for _, s := range sels {
		b.sels[s] = true
	}
}

// ---------- quantifiers ----------

type BoundVar struct {
	Name string
	Sort Sort
}

func (b *TermBank) BVar(name string, sort Sort) *Term {
	return b.mk(quoteSym(name), sort)
}

func (b *TermBank) Forall(vars []BoundVar, body *Term, patterns ...*Term) *Term {
	if isTrue(body) {
		return b.True()
	}
	return b.quant("forall", vars, body, patterns)
}

func (b *TermBank) Exists(vars []BoundVar, body *Term) *Term {
	if isFalse(body) {
		return b.False()
	}
	return b.quant("exists", vars, body, nil)
}

func (b *TermBank) quant(q string, vars []BoundVar, body *Term, patterns []*Term) *Term {
	var sb strings.Builder
	sb.WriteString(q)
	sb.WriteString(" (")
	for _, v := range vars {
		fmt.Fprintf(&sb, "(%s %s)", quoteSym(v.Name), v.Sort)
	}
	sb.WriteString(")")
	if len(patterns) > 0 {
		// (forall (..) (! body :pattern (p)))
		args := append([]*Term{body}, patterns...)
		return b.mk("\x00"+sb.String(), SBool, args...)
	}
	return b.mk(sb.String(), SBool, body)
}

func init() {
	// custom printer hook for patterned quantifiers is handled in write via op prefix
}

// writeQuantPattern is used by write for ops starting with \x00.
func (t *Term) writeSpecial(sb *strings.Builder) bool {
	if !strings.HasPrefix(t.op, "\x00") {
		return false
	}
	sb.WriteByte('(')
	sb.WriteString(t.op[1:])
	sb.WriteString(" (! ")
	t.args[0].write(sb)
	for _, p := range t.args[1:] {
		sb.WriteString(" :pattern (")
		p.write(sb)
		sb.WriteString(")")
	}
	sb.WriteString("))")
	return true
}

// collectDecls returns sorted names of free declared constants reachable from t.
func collectFree(t *Term, seen map[int]bool, out map[string]*Term) {
	if seen[t.id] {
		return
	}
	seen[t.id] = true
	if t.decl {
		out[t.name] = t
		return
	}
	for _, a := range t.args {
		collectFree(a, seen, out)
	}
}

func sortedKeys[V any](m map[string]V) []string {
	ks := make([]string, 0, len(m))
	for k := range m {
		ks = append(ks, k)
	}
	sort.Strings(ks)
	return ks
}
