package main

import (
	"sync"
	"fmt"
	"go/types"
	"strings"

	"golang.org/x/tools/go/ssa"
	"golang.org/x/tools/go/types/typeutil"
)

// World is the per-run universe shared by all functions: sorts for Go types,
// field ids, type ids, string ids, global ids.
type World struct {
	b  *TermBank
	mu sync.Mutex

	structs    typeutil.Map // *types.Struct (canonical) -> *StructInfo
	structList []*StructInfo
	ghost      map[string][]GhostField // key: types.TypeString of named struct type

	typeIDs  typeutil.Map // types.Type -> int
	typeList []types.Type
	strIDs   map[string]int
	globIDs  map[*ssa.Global]int
	funcIDs  map[*ssa.Function]int
	fidNext  int
	heapSort map[string]Sort // heap name -> array sort
	uninterp map[string]string // smt name -> "(argsorts) ressort"
	exemptFID map[int]bool     // field ids never subject to frame conditions
	guards    map[int]*boundGuard // field id -> guard
	fieldAssume map[int]*boundGuard
	fidSets     map[string][]int // named sets of field ids (emitted as define-fun predicates over Int)
}

type boundGuard struct {
	g      *Guard
	structT types.Type
	pkg    *types.Package
}

type GhostField struct {
	Name string
	Type types.Type
}

type FieldInfo struct {
	Name  string
	Type  types.Type
	FID   int
	Sel   string
	Ghost bool
}

type StructInfo struct {
	T      *types.Struct
	Sort   Sort
	Ctor   string
	Fields []FieldInfo // real fields (part of struct values)
	Ghosts []FieldInfo // ghost fields (heap cells only)
}

func (si *StructInfo) ghostField(name string) (FieldInfo, bool) {
	for _, f := range si.Ghosts {
		if f.Name == name {
			return f, true
		}
	}
	return FieldInfo{}, false
}

func NewWorld() *World {
	return &World{
		b:        NewBank(),
		ghost:    map[string][]GhostField{},
		strIDs:   map[string]int{"": 0},
		globIDs:  map[*ssa.Global]int{},
		funcIDs:  map[*ssa.Function]int{},
		heapSort: map[string]Sort{},
		uninterp: map[string]string{},
		exemptFID: map[int]bool{},
		guards:    map[int]*boundGuard{},
		fieldAssume: map[int]*boundGuard{},
		fidSets:     map[string][]int{},
	}
}

// pageSetType is the specification-only type "PageSet": a mathematical set of
// 64-bit page ids (SMT array from ids to Bool). It has no package.
var pageSetType = types.NewNamed(types.NewTypeName(0, nil, "PageSet", nil), types.NewStruct(nil, nil), nil)

func isPageSet(t types.Type) bool { return t == pageSetType }

// overlayTypes: byte-array types that are only ever used as the storage of one
// struct type (metaBuf for metaPage). They are modelled as that struct laid
// over element 0 (key: "pkgpath.Name"). Filled once while loading contracts.
var overlayTypes = map[string]types.Type{}

func overlayOf(t types.Type) (types.Type, bool) {
	if len(overlayTypes) == 0 {
		return nil, false
	}
	n, ok := t.(*types.Named)
	if !ok || n.Obj().Pkg() == nil {
		return nil, false
	}
	ov, ok := overlayTypes[n.Obj().Pkg().Path()+"."+n.Obj().Name()]
	return ov, ok
}

// opaqueLE reports little-endian fixed-width cells from go-bin (and pgID) that
// are modelled as one bit-vector leaf (trusted base T2).
func opaqueLE(t types.Type) (int, bool) {
	n, ok := t.(*types.Named)
	if !ok {
		if a, ok := t.(*types.Alias); ok {
			return opaqueLE(types.Unalias(a))
		}
		return 0, false
	}
	obj := n.Obj()
	if obj.Pkg() == nil {
		return 0, false
	}
	path := obj.Pkg().Path()
	name := obj.Name()
	if path == "github.com/urso/go-bin" {
		switch name {
		case "U8le", "I8le", "U8be", "I8be":
			return 8, true
		case "U16le", "I16le":
			return 16, true
		case "U32le", "I32le":
			return 32, true
		case "U64le", "I64le":
			return 64, true
		}
	}
	if path == "github.com/elastic/go-txfile" && name == "pgID" {
		return 64, true
	}
	return 0, false
}

func (w *World) sortOf(t types.Type) Sort {
	if isPageSet(t) {
		return SArray(SBV(64), SBool)
	}
	if n, ok := opaqueLE(t); ok {
		return SBV(n)
	}
	if ov, ok := overlayOf(t); ok {
		return w.sortOf(ov)
	}
	switch u := t.Underlying().(type) {
	case *types.Basic:
		switch {
		case u.Info()&types.IsBoolean != 0:
			return SBool
		case u.Info()&types.IsInteger != 0:
			return SBV(intBits(u))
		case u.Info()&types.IsString != 0:
			return SStr
		case u.Info()&types.IsFloat != 0:
			return SReal
		case u.Kind() == types.UnsafePointer:
			return SLoc
		case u.Kind() == types.UntypedNil:
			return SLoc
		}
	case *types.Pointer, *types.Map, *types.Chan:
		return SLoc
	case *types.Slice:
		return SSlice
	case *types.Interface:
		return SIface
	case *types.Signature:
		return SFunc
	case *types.Struct:
		return w.structInfo(t).Sort
	case *types.Array:
		return SArray(SBV(64), w.sortOf(u.Elem()))
	case *types.Tuple:
		return Sort("Tuple")
	}
	panic(fmt.Sprintf("sortOf: unsupported type %s", t))
}

func intBits(b *types.Basic) int {
	switch b.Kind() {
	case types.Int8, types.Uint8:
		return 8
	case types.Int16, types.Uint16:
		return 16
	case types.Int32, types.Uint32:
		return 32
	case types.UntypedRune:
		return 32
	}
	return 64
}

func isSigned(t types.Type) bool {
	if b, ok := t.Underlying().(*types.Basic); ok {
		return b.Info()&types.IsInteger != 0 && b.Info()&types.IsUnsigned == 0
	}
	return false
}

func isInteger(t types.Type) bool {
	if _, ok := opaqueLE(t); ok {
		return false
	}
	if b, ok := t.Underlying().(*types.Basic); ok {
		return b.Info()&types.IsInteger != 0
	}
	return false
}

// structInfo returns the datatype info for a struct type. Ghost fields
// declared for a named type are appended. The key is the named type when
// named (so ghost fields are per named type), but field ids are shared between
// named types with identical underlying structs (pointer conversions such as
// (*sharedLock)(l) keep addresses meaningful).
func (w *World) structInfo(t types.Type) *StructInfo {
	st, ok := t.Underlying().(*types.Struct)
	if !ok {
		panic("structInfo of non-struct " + t.String())
	}
	if v := w.structs.At(st); v != nil {
		return v.(*StructInfo)
	}
	si := &StructInfo{T: st}
	idx := len(w.structList)
	w.structList = append(w.structList, si)
	w.structs.Set(st, si)
	nm := fmt.Sprintf("S%d", idx)
	if n, ok := t.(*types.Named); ok {
		nm = fmt.Sprintf("S%d_%s", idx, sanitize(n.Obj().Name()))
	}
	si.Sort = Sort(nm)
	si.Ctor = "mk-" + nm
	for i := 0; i < st.NumFields(); i++ {
		f := st.Field(i)
		w.fidNext++
		si.Fields = append(si.Fields, FieldInfo{Name: f.Name(), Type: f.Type(), FID: w.fidNext, Sel: fmt.Sprintf("%s-%d%s", nm, i, sanitize(f.Name()))})
	}
	var sels []string
	for _, f := range si.Fields {
		sels = append(sels, f.Sel)
	}
	w.b.registerCtor(si.Ctor, sels)
	return si
}

// addGhostFields must be called before the struct is first used.
func (w *World) addGhostFields(named types.Type, gfs []GhostField) {
	si := w.structInfo(named)
	for _, g := range gfs {
		w.fidNext++
		si.Ghosts = append(si.Ghosts, FieldInfo{Name: g.Name, Type: g.Type, FID: w.fidNext, Ghost: true})
	}
}

func (si *StructInfo) field(name string) (FieldInfo, int, bool) {
	for i, f := range si.Fields {
		if f.Name == name {
			return f, i, true
		}
	}
	return FieldInfo{}, -1, false
}

func (w *World) typeID(t types.Type) int {
	if v := w.typeIDs.At(t); v != nil {
		return v.(int)
	}
	w.typeList = append(w.typeList, t)
	id := len(w.typeList) // 0 is the nil interface
	w.typeIDs.Set(t, id)
	return id
}

func (w *World) strID(s string) int {
	if id, ok := w.strIDs[s]; ok {
		return id
	}
	id := len(w.strIDs)
	w.strIDs[s] = id
	return id
}

func (w *World) globID(g *ssa.Global) int {
	if id, ok := w.globIDs[g]; ok {
		return id
	}
	id := len(w.globIDs) + 1
	w.globIDs[g] = id
	return id
}

func (w *World) funcID(f *ssa.Function) int {
	if id, ok := w.funcIDs[f]; ok {
		return id
	}
	id := len(w.funcIDs) + 1
	w.funcIDs[f] = id
	return id
}

// heapName returns the heap array used for a leaf sort.
func (w *World) heapName(s Sort) string {
	var nm string
	switch s {
	case SBool:
		nm = "H_Bool"
	case SInt:
		nm = "H_Int"
	case SLoc:
		nm = "H_Loc"
	case SSlice:
		nm = "H_Slice"
	case SIface:
		nm = "H_Iface"
	case SReal:
		nm = "H_Real"
	default:
		if n, ok := s.IsBV(); ok {
			nm = fmt.Sprintf("H_BV%d", n)
		} else if strings.HasPrefix(string(s), "(Array ") {
			// set-valued ghost cells etc.
			nm = "H_" + sanitize(string(s))
		} else {
			panic("no heap for sort " + string(s))
		}
	}
	if _, ok := w.heapSort[nm]; !ok {
		w.heapSort[nm] = SArray(SLoc, s)
	}
	return nm
}

// map heaps: contents, domain, length
func (w *World) mapHeapNames(m *types.Map) (val, dom, ln string) {
	ks, vs := w.sortOf(m.Key()), w.sortOf(m.Elem())
	if st, ok := m.Elem().Underlying().(*types.Struct); ok && st.NumFields() == 0 {
		vs = SBool // struct{} values carry no information
	}
	val = "M_" + sanitize(string(ks)) + "_" + sanitize(string(vs))
	dom = "MD_" + sanitize(string(ks)) + "_" + sanitize(string(vs))
	ln = "ML_" + sanitize(string(ks)) + "_" + sanitize(string(vs))
	if _, ok := w.heapSort[val]; !ok {
		w.heapSort[val] = SArray(SLoc, SArray(ks, vs))
	}
	if _, ok := w.heapSort[dom]; !ok {
		w.heapSort[dom] = SArray(SLoc, SArray(ks, SBool))
	}
	if _, ok := w.heapSort[ln]; !ok {
		w.heapSort[ln] = SArray(SLoc, SBV(64))
	}
	return
}

func (w *World) mapValSort(m *types.Map) Sort {
	if st, ok := m.Elem().Underlying().(*types.Struct); ok && st.NumFields() == 0 {
		return SBool
	}
	return w.sortOf(m.Elem())
}

// zero value of a Go type
func (w *World) zero(t types.Type) *Term {
	b := w.b
	if isPageSet(t) {
		return b.ConstArray(SArray(SBV(64), SBool), b.False())
	}
	if n, ok := opaqueLE(t); ok {
		return b.BV(0, n)
	}
	if ov, ok := overlayOf(t); ok {
		return w.zero(ov)
	}
	switch u := t.Underlying().(type) {
	case *types.Basic:
		switch {
		case u.Info()&types.IsBoolean != 0:
			return b.False()
		case u.Info()&types.IsInteger != 0:
			return b.BV(0, intBits(u))
		case u.Info()&types.IsString != 0:
			return b.Int(0)
		case u.Info()&types.IsFloat != 0:
			return b.mk("0.0", SReal)
		default:
			return b.Nil()
		}
	case *types.Pointer, *types.Map, *types.Chan:
		return b.Nil()
	case *types.Slice:
		return w.mkSlice(b.Nil(), b.BV(0, 64), b.BV(0, 64), b.BV(0, 64))
	case *types.Interface:
		return w.mkIface(b.Int(0), b.Nil(), b.BV(0, 64))
	case *types.Signature:
		return b.Int(0)
	case *types.Struct:
		si := w.structInfo(t)
		args := make([]*Term, len(si.Fields))
		for i, f := range si.Fields {
			args[i] = w.zero(f.Type)
		}
		if len(args) == 0 {
			return b.mk(si.Ctor, si.Sort)
		}
		return b.mk(si.Ctor, si.Sort, args...)
	case *types.Array:
		s := w.sortOf(t)
		return b.ConstArray(s, w.zero(u.Elem()))
	}
	panic("zero: unsupported " + t.String())
}

func (w *World) mkSlice(base, off, ln, cp *Term) *Term {
	return w.b.mk("mk-slice", SSlice, base, off, ln, cp)
}
func (w *World) sbase(s *Term) *Term { return w.b.App("sbase", SLoc, s) }
func (w *World) soff(s *Term) *Term  { return w.b.App("soff", SBV(64), s) }
func (w *World) slen(s *Term) *Term  { return w.b.App("slen", SBV(64), s) }
func (w *World) scap(s *Term) *Term  { return w.b.App("scap", SBV(64), s) }

func (w *World) mkIface(typ, ptr, num *Term) *Term {
	return w.b.mk("mk-iface", SIface, typ, ptr, num)
}
func (w *World) itype(s *Term) *Term { return w.b.App("itype", SInt, s) }
func (w *World) iptr(s *Term) *Term  { return w.b.App("iptr", SLoc, s) }
func (w *World) inum(s *Term) *Term  { return w.b.App("inum", SBV(64), s) }

// structField projects field i of a struct value.
func (w *World) structField(si *StructInfo, v *Term, i int) *Term {
	f := si.Fields[i]
	return w.b.App(f.Sel, w.sortOf(f.Type), v)
}

// structWith returns v with field i replaced.
func (w *World) structWith(si *StructInfo, v *Term, i int, nv *Term) *Term {
	args := make([]*Term, len(si.Fields))
	for j := range si.Fields {
		if j == i {
			args[j] = nv
		} else {
			args[j] = w.structField(si, v, j)
		}
	}
	return w.b.mk(si.Ctor, si.Sort, args...)
}

func (w *World) mkStruct(si *StructInfo, args []*Term) *Term {
	if len(args) == 0 {
		return w.b.mk(si.Ctor, si.Sort)
	}
	return w.b.mk(si.Ctor, si.Sort, args...)
}

// Prelude emits the fixed datatype declarations.
func (w *World) Prelude() string {
	var sb strings.Builder
	sb.WriteString("(set-option :produce-models true)\n(set-logic ALL)\n")
	sb.WriteString("(declare-datatypes ((Loc 0)) (((Nil) (Obj (oid Int)) (New (nid Int)) (Glob (gid Int)) (Fld (fbase Loc) (fid Int)) (Elem (ebase Loc) (eidx (_ BitVec 64))))))\n")
	sb.WriteString("(declare-datatypes ((Slice 0)) (((mk-slice (sbase Loc) (soff (_ BitVec 64)) (slen (_ BitVec 64)) (scap (_ BitVec 64))))))\n")
	sb.WriteString("(declare-datatypes ((Iface 0)) (((mk-iface (itype Int) (iptr Loc) (inum (_ BitVec 64))))))\n")
	sb.WriteString("(define-fun rootIsNew0 ((l Loc)) Bool ((_ is New) l))\n")
	sb.WriteString("(define-fun newId0 ((l Loc)) Int (ite ((_ is New) l) (nid l) (- 1)))\n")
	for d := 1; d <= 6; d++ {
		fmt.Fprintf(&sb, "(define-fun newId%d ((l Loc)) Int (ite ((_ is New) l) (nid l) (ite ((_ is Fld) l) (newId%d (fbase l)) (ite ((_ is Elem) l) (newId%d (ebase l)) (- 1)))))\n", d, d-1, d-1)
	}
	for d := 1; d <= 6; d++ {
		fmt.Fprintf(&sb, "(define-fun rootIsNew%d ((l Loc)) Bool (or ((_ is New) l) (and ((_ is Fld) l) (rootIsNew%d (fbase l))) (and ((_ is Elem) l) (rootIsNew%d (ebase l)))))\n", d, d-1, d-1)
	}
	// struct datatypes in dependency order (a struct is registered after its
	// nested structs are requested by sortOf only if we force it): compute order.
	done := map[*StructInfo]bool{}
	var emit func(si *StructInfo)
	emit = func(si *StructInfo) {
		if done[si] {
			return
		}
		done[si] = true
		for _, f := range si.Fields {
			w.forEachNestedStruct(f.Type, emit)
		}
		fmt.Fprintf(&sb, "(declare-datatypes ((%s 0)) (((%s", si.Sort, si.Ctor)
		for _, f := range si.Fields {
			fmt.Fprintf(&sb, " (%s %s)", f.Sel, w.sortOf(f.Type))
		}
		sb.WriteString("))))\n")
	}
	for i := 0; i < len(w.structList); i++ {
		emit(w.structList[i])
	}
	for _, nm := range sortedKeys(w.uninterp) {
		fmt.Fprintf(&sb, "(declare-fun %s %s)\n", nm, w.uninterp[nm])
	}
	for _, nm := range sortedKeys(w.fidSets) {
		fmt.Fprintf(&sb, "(define-fun %s ((f Int)) Bool (or false", nm)
		for _, id := range w.fidSets[nm] {
			fmt.Fprintf(&sb, " (= f %d)", id)
		}
		sb.WriteString("))\n")
	}
	return sb.String()
}

func (w *World) forEachNestedStruct(t types.Type, fn func(*StructInfo)) {
	if _, ok := opaqueLE(t); ok {
		return
	}
	switch u := t.Underlying().(type) {
	case *types.Struct:
		fn(w.structInfo(t))
	case *types.Array:
		w.forEachNestedStruct(u.Elem(), fn)
	}
}

// forceSorts makes sure all nested struct sorts of t are registered.
func (w *World) forceSorts(t types.Type) {
	seen := map[types.Type]bool{}
	var rec func(t types.Type)
	rec = func(t types.Type) {
		if seen[t] {
			return
		}
		seen[t] = true
		if _, ok := opaqueLE(t); ok {
			return
		}
		switch u := t.Underlying().(type) {
		case *types.Struct:
			si := w.structInfo(t)
			for _, f := range si.Fields {
				rec(f.Type)
			}
		case *types.Array:
			rec(u.Elem())
		}
	}
	rec(t)
}
