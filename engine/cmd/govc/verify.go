package main

import (
	"fmt"
	"go/ast"
	"go/types"
	"strings"

	"golang.org/x/tools/go/ssa"
)

type FuncResult struct {
	BC        *BoundContract
	Obls      []*Obligation
	Covers    []*Obligation
	Undecided []string
	Trusted   []string
	Panic     string
}

// verifyFunc generates all obligations of one function under contract.
func (e *Engine) verifyFunc(bc *BoundContract) (res *FuncResult) {
	res = &FuncResult{BC: bc}
	defer func() {
		if r := recover(); r != nil {
			if se, ok := r.(specError); ok {
				res.Undecided = append(res.Undecided, "spec error: "+se.msg)
				return
			}
			res.Panic = fmt.Sprintf("%v", r)
			res.Undecided = append(res.Undecided, "engine failure: "+res.Panic)
		}
	}()
	w, gerrs := e.newWorld()
	fn := bc.Fn
	cx := &Ctx{eng: e, w: w, fn: fn, bc: bc, h0: map[string]*Term{}, trusted: map[string]bool{}, names: map[string]int{}, axiomsFor: map[string]bool{}}
	for _, ge := range gerrs {
		cx.undecide("%s", ge)
	}
	b := w.b
	fr := &Frame{cx: cx, fn: fn, bc: bc, vals: map[ssa.Value]Val{}, top: true}
	// parameters
	var args []Val
	for _, p := range fn.Params {
		t := p.Type()
		v := Val{t: b.Const("p_"+p.Name(), w.sortOf(t)), typ: t}
		args = append(args, v)
		cx.assume(cx.typeInv(v.t, t))
		cx.assume(cx.notNewInput(v.t, t))
	}
	if len(fn.FreeVars) > 0 {
		for _, fv := range fn.FreeVars {
			t := fv.Type()
			v := Val{t: b.Const("fv_"+fv.Name(), w.sortOf(t)), typ: t}
			fr.free = append(fr.free, v)
			cx.assume(cx.notNewInput(v.t, t))
		}
	}
	fr.params = args
	fr.vars = bc.bindParams(args)
	// free variables of closures are visible by name (pointer cells)
	for i, fv := range fn.FreeVars {
		fr.vars[fv.Name()] = fr.free[i]
	}
	// function-typed parameters with a spec
	for i, p := range fn.Params {
		if _, ok := p.Type().Underlying().(*types.Signature); !ok {
			continue
		}
		pname := ""
		for k, v := range fr.vars {
			if v.t == args[i].t {
				pname = k
			}
		}
		sp := bc.C.FnParams[pname]
		if sp == nil {
			continue
		}
		spc := sp
		pkg := e.typesPackage(bc.C.PkgPath)
		a := args[i]
		a.fn = &FuncVal{param: spc, paramEnv: func(cargs []Val, cur, old *State) *SpecEnv {
			vars := map[string]Val{}
			for k, v := range fr.vars {
				vars[k] = v
			}
			for j, ca := range cargs {
				vars[fmt.Sprintf("arg%d", j)] = ca
			}
			return &SpecEnv{cx: cx, pkg: pkg, vars: vars, cur: cur, old: old}
		}}
		args[i] = a
		fr.params[i] = a
		fr.vars[pname] = a
	}

	cx.topVars = fr.vars
	st := newState()
	entry := st.clone()
	pkg := e.typesPackage(bc.C.PkgPath)
	env := &SpecEnv{cx: cx, pkg: pkg, vars: fr.vars, cur: st, old: entry}
	fr.st, fr.reach = st, b.True()
	fr.entry = entry
	for _, rq := range bc.C.Requires {
		if rq.Assumed {
			cx.trust(fmt.Sprintf("entry invariant of %s (holds between operations by an invariant over histories; assumed, not checked at call sites): %s", bc.Short(), rq.Text))
		}
		if g := fr.evalClause(env, rq); g != nil {
			cx.assume(g)
		}
	}
	for _, wc := range bc.C.Witness {
		func() {
			defer func() {
				if r := recover(); r != nil {
					cx.undecide("cannot bind witness `%s`: %v", wc.Text, r)
				}
			}()
			v := env.eval(wc.Expr)
			if v.t == nil {
				v = env.coerce(v, nil)
			}
			nt := b.Name("witness", v.t)
			cx.witness = append(cx.witness, witnessTerm{text: wc.Text, t: nt, mark: b.Mark()})
		}()
	}
	for _, sp := range bc.C.Splits {
		func() {
			defer func() {
				if r := recover(); r != nil {
					cx.undecide("cannot bind split `%s`: %v", sp.Text, r)
				}
			}()
			v := env.eval(sp.Expr)
			var lo, hi int
			fmt.Sscan(sp.Label, &lo, &hi)
			bits, _ := v.t.sort.IsBV()
			var cases []*Term
			for k := lo; k <= hi; k++ {
				cases = append(cases, b.Eq(v.t, b.BV(uint64(1)<<uint(k), bits)))
			}
			// exhaustiveness is itself an obligation
			cx.newObligation("split", "exhaustive", sp.Text, fmt.Sprintf("%s:%d", sp.File, sp.Line), b.True(), b.Or(cases...), bc.C.Props)
			cx.splits = append(cx.splits, cases)
			if cx.pow2Hi == 0 {
				cx.pow2Lo, cx.pow2Hi = lo, hi
			}
		}()
	}
	// cover: preconditions satisfiable
	cov := cx.newObligation("cover", "requires", "the precondition is satisfiable", "", b.True(), b.False(), bc.C.Props)
	cov.IsCover = true
	cov.Trivial = false

	cx.stack = append(cx.stack, fn)
	results, exitSt, exitReach := fr.run(st, b.True())
	cx.curBlk = nil
	fr.st, fr.reach = exitSt, exitReach
	fr.entry = entry

	if !isFalse(exitReach) {
		cov2 := cx.newObligation("cover", "exit", "a normal return is reachable", "", exitReach, b.False(), bc.C.Props)
		cov2.IsCover = true
		cov2.Trivial = false
		rvars := map[string]Val{}
		for k, v := range fr.vars {
			rvars[k] = v
		}
		bc.bindResults(rvars, results)
		// every postcondition is checked on each return path with that path's own
		// state (one obligation: the conjunction over the return paths)
		type retEnv struct {
			reach *Term
			env   *SpecEnv
			vars  map[string]Val
		}
		var renvs []retEnv
		for _, r := range fr.rets {
			rv := map[string]Val{}
			for k, v := range fr.vars {
				rv[k] = v
			}
			bc.bindResults(rv, r.results)
			// ghost assignments of the contract happen at the return
			for _, sc := range bc.C.Sets {
				applyGhostSet(cx, &SpecEnv{cx: cx, pkg: pkg, vars: rv, cur: r.st, old: entry}, sc, r.st)
			}
			renvs = append(renvs, retEnv{reach: r.reach, vars: rv, env: &SpecEnv{cx: cx, pkg: pkg, vars: rv, cur: r.st, old: entry, iter: r.iterSt, rets: fr.lastRets, retNames: fr.lastRetNames, called: fr.lastCalled}})
		}
		for i, en := range bc.C.Ensures {
			if en.Assumed {
				continue
			}
			var cs []*Term
			okAll := true
			for _, re := range renvs {
				g := fr.evalClause(re.env, en)
				if g == nil {
					okAll = false
					break
				}
				cs = append(cs, b.Implies(re.reach, g))
			}
			if okAll {
				ob := cx.newObligation("ensures", clauseLabel(en, i), en.Text, fmt.Sprintf("%s:%d", en.File, en.Line), b.True(), b.And(cs...), clauseProps(en, bc.C.Props))
				if len(cs) > 1 {
					ob.parts = cs
					for _, r := range fr.rets {
						ob.partBlk = append(ob.partBlk, r.blk)
					}
				}
			}
		}
		for _, fname := range bc.C.Fresh {
			var cs []*Term
			for _, re := range renvs {
				if rv, ok := re.vars[fname]; ok && rv.t != nil && rv.t.sort == SLoc {
					cs = append(cs, b.Implies(re.reach, b.Or(b.IsNil(rv.t), b.mk("(_ is New)", SBool, rv.t))))
				}
			}
			if len(cs) > 0 {
				cx.newObligation("ensures", "fresh-"+fname, "result "+fname+" is a freshly allocated object", fmt.Sprintf("%s:%d", bc.C.File, bc.C.Line), b.True(), b.And(cs...), bc.C.Props)
			}
		}
		// frame
		menv := &SpecEnv{cx: cx, pkg: pkg, vars: fr.vars, cur: entry, old: entry}
		var mods []ModLoc
		for _, mc := range bc.C.Modifies {
			for _, x := range mc.Exprs {
				mods = append(mods, fr.evalLocs(menv, x, mc)...)
			}
		}
		var tos []frameTo
		for _, r := range fr.rets {
			tos = append(tos, frameTo{reach: r.reach, st: r.st})
		}
		fr.reach = b.True()
		fr.frameCheckMulti("exit", entry, tos, mods, fn.Pos())
		fr.reach = exitReach
	} else if len(cx.undecided) == 0 {
		cx.undecide("no normal return of %s is reachable in the model", fn)
	}

	for _, o := range cx.obls {
		if o.IsCover {
			res.Covers = append(res.Covers, o)
		} else {
			res.Obls = append(res.Obls, o)
		}
	}
	res.Undecided = cx.undecided
	for k := range cx.trusted {
		res.Trusted = append(res.Trusted, k)
	}
	return res
}

// verifyLemma checks an inline lemma: closed boolean spec expressions.
func (e *Engine) verifyLemma(lm *Lemma) (res *FuncResult) {
	res = &FuncResult{}
	defer func() {
		if r := recover(); r != nil {
			if se, ok := r.(specError); ok {
				res.Undecided = append(res.Undecided, "lemma "+lm.Name+": spec error: "+se.msg)
				return
			}
			res.Undecided = append(res.Undecided, fmt.Sprintf("lemma %s: engine failure: %v", lm.Name, r))
		}
	}()
	w, _ := e.newWorld()
	cx := &Ctx{eng: e, w: w, h0: map[string]*Term{}, trusted: map[string]bool{}, names: map[string]int{}, axiomsFor: map[string]bool{}, nameBase: "lemma " + lm.Name}
	pkg := e.typesPackage(lm.PkgPath)
	st := newState()
	env := &SpecEnv{cx: cx, pkg: pkg, vars: map[string]Val{}, cur: st, old: st}
	for i, en := range lm.Ensures {
		g := env.evalBool(en.Expr)
		cx.newObligation("lemma", clauseLabel(en, i), en.Text, fmt.Sprintf("%s:%d", en.File, en.Line), w.b.True(), g, lm.Props)
	}
	res.Obls = cx.obls
	res.Undecided = cx.undecided
	return res
}

func clauseProps(c *Clause, def []string) []string {
	if len(c.Prop) > 0 {
		return c.Prop
	}
	return def
}

// notNewInput: values that exist before the call do not point into objects
// allocated during the call.
func (cx *Ctx) notNewInput(v *Term, t types.Type) *Term {
	b, w := cx.w.b, cx.w
	switch v.sort {
	case SLoc:
		return b.Not(cx.rootIsNew(v))
	case SSlice:
		return b.Not(cx.rootIsNew(w.sbase(v)))
	case SIface:
		return b.Not(cx.rootIsNew(w.iptr(v)))
	}
	if st, ok := t.Underlying().(*types.Struct); ok && isStructType(t) {
		_ = st
		si := w.structInfo(t)
		var cs []*Term
		for i, f := range si.Fields {
			cs = append(cs, cx.notNewInput(w.structField(si, v, i), f.Type))
		}
		return b.And(cs...)
	}
	return b.True()
}

func propsContain(ps []string, p string) bool {
	for _, x := range ps {
		if x == p {
			return true
		}
	}
	return false
}

func shortName(s string) string {
	s = strings.ReplaceAll(s, modulePath+"/", "")
	s = strings.ReplaceAll(s, modulePath+".", "txfile.")
	return s
}

// applyGhostSet performs "sets loc = expr" on st; only ghost fields and ghost variables may be assigned.
func applyGhostSet(cx *Ctx, env *SpecEnv, sc *Clause, st *State) {
	defer func() {
		if r := recover(); r != nil {
			cx.undecide("%s:%d: cannot bind `sets %s`: %v", sc.File, sc.Line, sc.Text, r)
		}
	}()
	lhs := env.eval(sc.Exprs[0])
	if lhs.loc == nil {
		specFail("left side is not a location")
	}
	if !isGhostLoc(cx, sc.Exprs[0], env) {
		specFail("only ghost fields and ghost variables can be set by a contract")
	}
	rhs := env.eval(sc.Exprs[1])
	if rhs.isNil {
		rhs = Val{t: cx.w.zero(lhs.typ), typ: lhs.typ}
	}
	rhs = env.coerce(rhs, lhs.typ)
	cx.store(st, lhs.loc, lhs.typ, rhs.t)
}

func isGhostLoc(cx *Ctx, x astExpr, env *SpecEnv) bool {
	switch n := x.(type) {
	case *ast.Ident:
		return cx.eng.ghostVar(n.Name) != nil
	case *ast.SelectorExpr:
		base := env.eval(n.X)
		t := base.typ
		if t == nil {
			return false
		}
		if pt, ok := t.Underlying().(*types.Pointer); ok {
			t = pt.Elem()
		}
		if !isStructType(t) {
			return false
		}
		_, ok := cx.w.structInfo(t).ghostField(n.Sel.Name)
		return ok
	}
	return false
}
