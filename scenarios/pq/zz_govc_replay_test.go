package pq

// Replay scenarios for obligations of package pq (injected by govc with
// `go test -overlay`, never written to the repository).

import (
	"encoding/json"
	"fmt"
	"os"
	"testing"
	"time"

	"github.com/elastic/go-txfile"
	"github.com/elastic/go-txfile/internal/mint"
	"github.com/elastic/go-txfile/txerr"
)

type govcParams struct {
	Scenario   string            `json:"scenario"`
	Args       []string          `json:"args"`
	Obligation string            `json:"obligation"`
	Kind       string            `json:"kind"`
	Label      string            `json:"label"`
	Witness    map[string]string `json:"witness"`
}

type govcOutcome struct {
	reproduced bool
	detail     string
	skip       string
}

func govcRecover(fn func()) (panicked bool, val interface{}) {
	defer func() {
		if r := recover(); r != nil {
			panicked, val = true, r
		}
	}()
	fn()
	return
}

func govcWithin(d time.Duration, fn func()) bool {
	done := make(chan struct{})
	go func() {
		defer close(done)
		fn()
	}()
	select {
	case <-done:
		return true
	case <-time.After(d):
		return false
	}
}

var govcScenarios = map[string]func(t *testing.T, p *govcParams) govcOutcome{}

func TestGovcReplay(t *testing.T) {
	path := os.Getenv("GOVC_REPLAY")
	if path == "" {
		t.Skip("no replay requested")
	}
	data, err := os.ReadFile(path)
	if err != nil {
		t.Fatal(err)
	}
	var p govcParams
	if err := json.Unmarshal(data, &p); err != nil {
		t.Fatal(err)
	}
	sc := govcScenarios[p.Scenario]
	if sc == nil {
		fmt.Printf("GOVC-REPLAY: not-replayable unknown scenario %q\n", p.Scenario)
		return
	}
	out := sc(t, &p)
	switch {
	case out.skip != "":
		fmt.Printf("GOVC-REPLAY: not-replayable %s\n", out.skip)
	case out.reproduced:
		fmt.Printf("GOVC-REPLAY: reproduced %s\n", out.detail)
	default:
		fmt.Printf("GOVC-REPLAY: not-reproduced %s\n", out.detail)
	}
}

func govcQueue(t *testing.T) (*testQueue, func()) {
	return setupQueue(mint.NewWith(t, nil), config{
		File:  txfile.Options{MaxSize: 256 * 1024, PageSize: 1024, Sync: txfile.SyncNone},
		Queue: Settings{WriteBuffer: 4096},
	})
}

// ---------------------------------------------------------------------------
// scenario queueclosed: use of a queue after Close. Three flushed events, the
// queue (not the file) is closed, then ACK / Reader are used.
// ---------------------------------------------------------------------------

func init() { govcScenarios["queueclosed"] = govcQueueClosed }

func govcQueueClosed(t *testing.T, p *govcParams) govcOutcome {
	for _, touchBefore := range []bool{false, true} {
		qu, teardown := govcQueue(t)
		qu.append("a", "b", "c")
		qu.flush()
		if touchBefore {
			// create reader and acker objects before closing
			qu.Queue.Reader()
			if _, err := qu.Queue.Active(); err != nil {
				teardown()
				return govcOutcome{skip: "Active failed: " + err.Error()}
			}
		}
		q := qu.Queue
		if err := q.Close(); err != nil {
			teardown()
			return govcOutcome{skip: "Close failed: " + err.Error()}
		}
		var ackErr, beginErr error
		var pendingAfter int
		panicked, pv := false, interface{}(nil)
		returned := govcWithin(10*time.Second, func() {
			panicked, pv = govcRecover(func() {
				ackErr = q.ACK(2)
				r := q.Reader()
				beginErr = r.Begin()
				if beginErr == nil {
					r.Done()
				}
				pendingAfter, _ = q.Pending()
			})
		})
		qu.Queue = nil
		qu.TestFile.Close()
		teardown()
		state := fmt.Sprintf("after Queue.Close (reader/acker created before close: %v)", touchBefore)
		if !returned {
			return govcOutcome{reproduced: true, detail: state + ": calls did not return within 10s"}
		}
		if panicked {
			return govcOutcome{reproduced: true, detail: fmt.Sprintf("%s: panic %v", state, pv)}
		}
		if ackErr == nil || !txerr.Is(QueueClosed, ackErr) {
			return govcOutcome{reproduced: true, detail: fmt.Sprintf("%s: ACK(2) returned %v (pending now %d), want an error of kind QueueClosed", state, ackErr, pendingAfter)}
		}
		if beginErr == nil || !txerr.Is(ReaderClosed, beginErr) {
			return govcOutcome{reproduced: true, detail: fmt.Sprintf("%s: Reader().Begin() returned %v, want an error of kind ReaderClosed", state, beginErr)}
		}
	}
	return govcOutcome{detail: "ACK and Reader.Begin after Queue.Close return QueueClosed / ReaderClosed"}
}
