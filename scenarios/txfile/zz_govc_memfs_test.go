package txfile

// In-memory vfs.File used by govc replays (injected with `go test -overlay`,
// never written to the repository).

import (
	"errors"
	"fmt"
	"io"
	"sync"

	"github.com/elastic/go-txfile/internal/vfs"
)

type govcMemFile struct {
	mu     sync.Mutex
	mem    []byte
	size   int64
	calls  map[string]int
	failAt map[string]int // op -> 1-based index of the call that fails (0: never); negative: fail from |k| on
	log    []string
	mapped int
}

var errGovcInjected = errors.New("govc: injected I/O failure")

func newGovcMemFile(capacity int) *govcMemFile {
	return &govcMemFile{mem: make([]byte, capacity), calls: map[string]int{}, failAt: map[string]int{}}
}

func (f *govcMemFile) hit(op string) error {
	f.calls[op]++
	k := f.failAt[op]
	n := f.calls[op]
	if (k > 0 && n == k) || (k < 0 && n >= -k) {
		f.log = append(f.log, fmt.Sprintf("%s#%d FAIL", op, n))
		return errGovcInjected
	}
	return nil
}

func (f *govcMemFile) Close() error { return nil }
func (f *govcMemFile) Name() string { return "govc-mem" }

func (f *govcMemFile) WriteAt(p []byte, off int64) (int, error) {
	f.mu.Lock()
	defer f.mu.Unlock()
	if err := f.hit("WriteAt"); err != nil {
		return 0, err
	}
	if off < 0 || off+int64(len(p)) > int64(len(f.mem)) {
		return 0, errors.New("govc: write beyond backing store")
	}
	copy(f.mem[off:], p)
	if end := off + int64(len(p)); end > f.size {
		f.size = end
	}
	f.log = append(f.log, fmt.Sprintf("W %d %d", off, len(p)))
	return len(p), nil
}

func (f *govcMemFile) ReadAt(p []byte, off int64) (int, error) {
	f.mu.Lock()
	defer f.mu.Unlock()
	if err := f.hit("ReadAt"); err != nil {
		return 0, err
	}
	if off >= f.size {
		return 0, io.EOF
	}
	n := copy(p, f.mem[off:f.size])
	if n < len(p) {
		return n, io.EOF
	}
	return n, nil
}

func (f *govcMemFile) Size() (int64, error) {
	f.mu.Lock()
	defer f.mu.Unlock()
	if err := f.hit("Size"); err != nil {
		return 0, err
	}
	return f.size, nil
}

func (f *govcMemFile) Truncate(sz int64) error {
	f.mu.Lock()
	defer f.mu.Unlock()
	if err := f.hit("Truncate"); err != nil {
		return err
	}
	if sz > int64(len(f.mem)) {
		return errors.New("govc: truncate beyond backing store")
	}
	if sz > f.size {
		for i := f.size; i < sz; i++ {
			f.mem[i] = 0
		}
	}
	f.size = sz
	f.log = append(f.log, fmt.Sprintf("T %d", sz))
	return nil
}

func (f *govcMemFile) Lock(exclusive, blocking bool) error { return nil }
func (f *govcMemFile) Unlock() error                       { return nil }

func (f *govcMemFile) MMap(sz int) ([]byte, error) {
	f.mu.Lock()
	defer f.mu.Unlock()
	if err := f.hit("MMap"); err != nil {
		return nil, err
	}
	if sz > len(f.mem) {
		return nil, errors.New("govc: mmap beyond backing store")
	}
	f.mapped++
	return f.mem[:sz:sz], nil
}

func (f *govcMemFile) MUnmap(b []byte) error {
	f.mu.Lock()
	defer f.mu.Unlock()
	if err := f.hit("MUnmap"); err != nil {
		return err
	}
	return nil
}

func (f *govcMemFile) Sync(flags vfs.SyncFlag) error {
	f.mu.Lock()
	defer f.mu.Unlock()
	if err := f.hit("Sync"); err != nil {
		return err
	}
	f.log = append(f.log, "S")
	return nil
}

// govcOpen creates a fresh bounded file on an in-memory backing store.
func govcOpen(opts Options) (*File, *govcMemFile, error) {
	mf := newGovcMemFile(8 << 20)
	if opts.MaxSize == 0 && !opts.Flags.check(FlagUnboundMaxSize) {
		opts.MaxSize = 1 << 20
	}
	if opts.PageSize == 0 {
		opts.PageSize = 4096
	}
	f, err := openWith(mf, opts)
	if err != nil {
		return nil, mf, err
	}
	return f, mf, nil
}
