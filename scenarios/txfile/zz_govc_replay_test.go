package txfile

import (
	"encoding/json"
	"fmt"
	"os"
	"testing"
	"time"

	"github.com/elastic/go-txfile/txerr"
)

// govcParams is what the verifier hands to a replay: the scenario name, its
// static arguments from the contract, the failed obligation and the model
// values of the contract's witness expressions.
type govcParams struct {
	Scenario   string            `json:"scenario"`
	Args       []string          `json:"args"`
	Obligation string            `json:"obligation"`
	Kind       string            `json:"kind"`
	Label      string            `json:"label"`
	Witness    map[string]string `json:"witness"`
}

func (p *govcParams) boolW(k string, dflt bool) bool {
	v, ok := p.Witness[k]
	if !ok {
		return dflt
	}
	return v == "true"
}

func (p *govcParams) uintW(k string, dflt uint64) uint64 {
	v, ok := p.Witness[k]
	if !ok || len(v) < 3 {
		return dflt
	}
	var x uint64
	if v[:2] == "#x" {
		fmt.Sscanf(v[2:], "%x", &x)
		return x
	}
	if v[:2] == "#b" {
		fmt.Sscanf(v[2:], "%b", &x)
		return x
	}
	fmt.Sscanf(v, "%d", &x)
	return x
}

type govcOutcome struct {
	reproduced bool
	detail     string
	skip       string
}

func govcRecover(fn func()) (panicked bool, val interface{}) {
	defer func() {
		if r := recover(); r != nil {
			panicked, val = true, r
		}
	}()
	fn()
	return
}

// govcWithin runs fn with a watchdog; returns false if it did not return in time.
func govcWithin(d time.Duration, fn func()) bool {
	done := make(chan struct{})
	go func() {
		defer close(done)
		fn()
	}()
	select {
	case <-done:
		return true
	case <-time.After(d):
		return false
	}
}

var govcScenarios = map[string]func(t *testing.T, p *govcParams) govcOutcome{}

func TestGovcReplay(t *testing.T) {
	path := os.Getenv("GOVC_REPLAY")
	if path == "" {
		t.Skip("no replay requested")
	}
	data, err := os.ReadFile(path)
	if err != nil {
		t.Fatal(err)
	}
	var p govcParams
	if err := json.Unmarshal(data, &p); err != nil {
		t.Fatal(err)
	}
	sc := govcScenarios[p.Scenario]
	if sc == nil {
		fmt.Printf("GOVC-REPLAY: not-replayable unknown scenario %q\n", p.Scenario)
		return
	}
	out := sc(t, &p)
	switch {
	case out.skip != "":
		fmt.Printf("GOVC-REPLAY: not-replayable %s\n", out.skip)
	case out.reproduced:
		fmt.Printf("GOVC-REPLAY: reproduced %s\n", out.detail)
	default:
		fmt.Printf("GOVC-REPLAY: not-reproduced %s\n", out.detail)
	}
}

// ---------------------------------------------------------------------------
// scenario txmethod: a public *Tx method in a given life-cycle state
//   args[0] = method; witness: tx.flags.active, tx.flags.readonly
// ---------------------------------------------------------------------------

func init() { govcScenarios["txmethod"] = govcTxMethod }

func govcTxMethod(t *testing.T, p *govcParams) govcOutcome {
	method := ""
	if len(p.Args) > 0 {
		method = p.Args[0]
	}
	active := p.boolW("tx.flags.active", true)
	readonly := p.boolW("tx.flags.readonly", false)
	f, _, err := govcOpen(Options{})
	if err != nil {
		return govcOutcome{skip: "open failed: " + err.Error()}
	}
	// one committed page so that page level calls have something to work on
	{
		tx, _ := f.Begin()
		pg, _ := tx.Alloc()
		pg.SetBytes(make([]byte, 16))
		tx.SetRoot(pg.ID())
		if err := tx.Commit(); err != nil {
			return govcOutcome{skip: "setup commit failed: " + err.Error()}
		}
	}
	tx, err := f.BeginWith(TxOptions{Readonly: readonly})
	if err != nil {
		return govcOutcome{skip: "begin failed: " + err.Error()}
	}
	if !active {
		tx.Close()
	}
	before := fmt.Sprintf("%+v|%v|%v", f.allocator, f.metaActive, f.wal.mapping)
	var callErr error
	hasErr := true
	call := func() {
		switch method {
		case "Commit":
			callErr = tx.Commit()
		case "Rollback":
			callErr = tx.Rollback()
		case "Close":
			callErr = tx.Close()
		case "Page":
			_, callErr = tx.Page(2)
		case "RootPage":
			_, callErr = tx.RootPage()
		case "Alloc":
			_, callErr = tx.Alloc()
		case "AllocN":
			_, callErr = tx.AllocN(2)
		case "Flush":
			callErr = tx.Flush()
		case "CheckpointWAL":
			callErr = tx.CheckpointWAL()
		case "PageSize":
			hasErr = false
			_ = tx.PageSize()
		default:
			panic("govc: unknown method " + method)
		}
	}
	var panicked bool
	var pv interface{}
	returned := govcWithin(5*time.Second, func() { panicked, pv = govcRecover(call) })
	after := fmt.Sprintf("%+v|%v|%v", f.allocator, f.metaActive, f.wal.mapping)
	state := fmt.Sprintf("%s on tx(active=%v, readonly=%v)", method, active, readonly)
	if !returned {
		return govcOutcome{reproduced: true, detail: state + " did not return within 5s"}
	}
	if panicked {
		return govcOutcome{reproduced: true, detail: fmt.Sprintf("%s panicked: %v", state, pv)}
	}
	switch p.Kind {
	case "ensures":
		switch p.Label {
		case "finished-is-an-error":
			if !active && hasErr && (callErr == nil || !txerr.Is(TxFinished, callErr)) {
				return govcOutcome{reproduced: true, detail: fmt.Sprintf("%s returned %v, want an error of kind TxFinished", state, callErr)}
			}
		case "readonly-is-an-error":
			if active && readonly && (callErr == nil || !txerr.Is(TxReadOnly, callErr)) {
				return govcOutcome{reproduced: true, detail: fmt.Sprintf("%s returned %v, want an error of kind TxReadOnly", state, callErr)}
			}
		case "never-fails":
			if callErr != nil {
				return govcOutcome{reproduced: true, detail: fmt.Sprintf("%s returned %v", state, callErr)}
			}
		case "finished-changes-nothing", "readonly-changes-nothing":
			if before != after {
				return govcOutcome{reproduced: true, detail: fmt.Sprintf("%s changed file state: %s -> %s", state, before, after)}
			}
		}
	}
	return govcOutcome{detail: fmt.Sprintf("%s returned err=%v without panic", state, callErr)}
}
