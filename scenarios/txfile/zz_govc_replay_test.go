package txfile

import (
	"encoding/json"
	"fmt"
	"os"
	"strings"
	"sync"
	"testing"
	"time"

	"github.com/elastic/go-txfile/internal/vfs"

	"github.com/elastic/go-txfile/txerr"
)

// govcParams is what the verifier hands to a replay: the scenario name, its
// static arguments from the contract, the failed obligation and the model
// values of the contract's witness expressions.
type govcParams struct {
	Scenario   string            `json:"scenario"`
	Args       []string          `json:"args"`
	Obligation string            `json:"obligation"`
	Kind       string            `json:"kind"`
	Label      string            `json:"label"`
	Witness    map[string]string `json:"witness"`
}

func (p *govcParams) boolW(k string, dflt bool) bool {
	v, ok := p.Witness[k]
	if !ok {
		return dflt
	}
	return v == "true"
}

func (p *govcParams) uintW(k string, dflt uint64) uint64 {
	v, ok := p.Witness[k]
	if !ok || len(v) < 3 {
		return dflt
	}
	var x uint64
	if v[:2] == "#x" {
		fmt.Sscanf(v[2:], "%x", &x)
		return x
	}
	if v[:2] == "#b" {
		fmt.Sscanf(v[2:], "%b", &x)
		return x
	}
	fmt.Sscanf(v, "%d", &x)
	return x
}

type govcOutcome struct {
	reproduced bool
	detail     string
	skip       string
}

func govcRecover(fn func()) (panicked bool, val interface{}) {
	defer func() {
		if r := recover(); r != nil {
			panicked, val = true, r
		}
	}()
	fn()
	return
}

// govcWithin runs fn with a watchdog; returns false if it did not return in time.
func govcWithin(d time.Duration, fn func()) bool {
	done := make(chan struct{})
	go func() {
		defer close(done)
		fn()
	}()
	select {
	case <-done:
		return true
	case <-time.After(d):
		return false
	}
}

// govcPanicMatches decides whether an observed panic is the failure the
// obligation speaks about: safety obligations are matched by their class, a
// panic never counts as the replay of a functional postcondition.
func govcPanicMatches(p *govcParams, pv interface{}) bool {
	if p.Kind != "safety" {
		return false
	}
	msg := fmt.Sprint(pv)
	has := func(sub string) bool { return strings.Contains(msg, sub) }
	switch {
	case strings.HasPrefix(p.Label, "nil-deref"), strings.HasPrefix(p.Label, "nil-iface"), strings.HasPrefix(p.Label, "nil-func"):
		return has("nil pointer dereference")
	case strings.HasPrefix(p.Label, "nil-map"):
		return has("nil map")
	case strings.HasPrefix(p.Label, "slice-bounds"):
		return has("slice bounds out of range")
	case strings.HasPrefix(p.Label, "index"):
		return has("index out of range")
	case strings.HasPrefix(p.Label, "div-zero"):
		return has("divide by zero")
	case strings.HasPrefix(p.Label, "make-len"):
		return has("makeslice")
	case strings.HasPrefix(p.Label, "type-assert"):
		return has("interface conversion")
	case strings.HasPrefix(p.Label, "panic"):
		return true
	case strings.HasPrefix(p.Label, "cast-bounds"):
		return has("out of range") || has("nil pointer") || has("fault")
	}
	return false
}

var govcScenarios = map[string]func(t *testing.T, p *govcParams) govcOutcome{}

func TestGovcReplay(t *testing.T) {
	path := os.Getenv("GOVC_REPLAY")
	if path == "" {
		t.Skip("no replay requested")
	}
	data, err := os.ReadFile(path)
	if err != nil {
		t.Fatal(err)
	}
	var p govcParams
	if err := json.Unmarshal(data, &p); err != nil {
		t.Fatal(err)
	}
	sc := govcScenarios[p.Scenario]
	if sc == nil {
		fmt.Printf("GOVC-REPLAY: not-replayable unknown scenario %q\n", p.Scenario)
		return
	}
	out := sc(t, &p)
	switch {
	case out.skip != "":
		fmt.Printf("GOVC-REPLAY: not-replayable %s\n", out.skip)
	case out.reproduced:
		fmt.Printf("GOVC-REPLAY: reproduced %s\n", out.detail)
	default:
		fmt.Printf("GOVC-REPLAY: not-reproduced %s\n", out.detail)
	}
}

// ---------------------------------------------------------------------------
// scenario txmethod: a public *Tx method in a given life-cycle state
//   args[0] = method; witness: tx.flags.active, tx.flags.readonly
// ---------------------------------------------------------------------------

func init() { govcScenarios["txmethod"] = govcTxMethod }

func govcTxMethod(t *testing.T, p *govcParams) govcOutcome {
	method := ""
	if len(p.Args) > 0 {
		method = p.Args[0]
	}
	active := p.boolW("tx.flags.active", true)
	readonly := p.boolW("tx.flags.readonly", false)
	f, _, err := govcOpen(Options{})
	if err != nil {
		return govcOutcome{skip: "open failed: " + err.Error()}
	}
	// one committed page so that page level calls have something to work on
	{
		tx, _ := f.Begin()
		pg, _ := tx.Alloc()
		pg.SetBytes(make([]byte, 16))
		tx.SetRoot(pg.ID())
		if err := tx.Commit(); err != nil {
			return govcOutcome{skip: "setup commit failed: " + err.Error()}
		}
	}
	tx, err := f.BeginWith(TxOptions{Readonly: readonly})
	if err != nil {
		return govcOutcome{skip: "begin failed: " + err.Error()}
	}
	if !active {
		tx.Close()
	}
	before := fmt.Sprintf("%+v|%v|%v", f.allocator, f.metaActive, f.wal.mapping)
	var callErr error
	hasErr := true
	call := func() {
		switch method {
		case "Commit":
			callErr = tx.Commit()
		case "Rollback":
			callErr = tx.Rollback()
		case "Close":
			callErr = tx.Close()
		case "Page":
			_, callErr = tx.Page(2)
		case "RootPage":
			_, callErr = tx.RootPage()
		case "Alloc":
			_, callErr = tx.Alloc()
		case "AllocN":
			_, callErr = tx.AllocN(2)
		case "Flush":
			callErr = tx.Flush()
		case "CheckpointWAL":
			callErr = tx.CheckpointWAL()
		case "PageSize":
			hasErr = false
			_ = tx.PageSize()
		default:
			panic("govc: unknown method " + method)
		}
	}
	var panicked bool
	var pv interface{}
	returned := govcWithin(5*time.Second, func() { panicked, pv = govcRecover(call) })
	after := fmt.Sprintf("%+v|%v|%v", f.allocator, f.metaActive, f.wal.mapping)
	state := fmt.Sprintf("%s on tx(active=%v, readonly=%v)", method, active, readonly)
	if !returned {
		return govcOutcome{reproduced: true, detail: state + " did not return within 5s"}
	}
	if panicked {
		if govcPanicMatches(p, pv) {
			return govcOutcome{reproduced: true, detail: fmt.Sprintf("%s panicked: %v", state, pv)}
		}
		return govcOutcome{detail: fmt.Sprintf("%s panicked (%v), but that is not what this obligation is about", state, pv)}
	}
	switch p.Kind {
	case "ensures":
		switch p.Label {
		case "finished-is-an-error":
			if !active && hasErr && (callErr == nil || !txerr.Is(TxFinished, callErr)) {
				return govcOutcome{reproduced: true, detail: fmt.Sprintf("%s returned %v, want an error of kind TxFinished", state, callErr)}
			}
		case "readonly-is-an-error":
			if active && readonly && (callErr == nil || !txerr.Is(TxReadOnly, callErr)) {
				return govcOutcome{reproduced: true, detail: fmt.Sprintf("%s returned %v, want an error of kind TxReadOnly", state, callErr)}
			}
		case "never-fails":
			if callErr != nil {
				return govcOutcome{reproduced: true, detail: fmt.Sprintf("%s returned %v", state, callErr)}
			}
		case "finished-changes-nothing", "readonly-changes-nothing":
			if before != after {
				return govcOutcome{reproduced: true, detail: fmt.Sprintf("%s changed file state: %s -> %s", state, before, after)}
			}
		}
	}
	return govcOutcome{detail: fmt.Sprintf("%s returned err=%v without panic", state, callErr)}
}

// ---------------------------------------------------------------------------
// scenario iofault: fail the k-th call of one vfs operation during a fixed
// workload (open, grow past the mapped area, shrink, reopen); args[0] = op.
// Reproduced if any k makes the workload panic or hang, or (for labelled
// postconditions) leaves the File in the state the obligation forbids.
// ---------------------------------------------------------------------------

func init() { govcScenarios["iofault"] = govcIOFault }

func govcIOFault(t *testing.T, p *govcParams) govcOutcome {
	op := "MMap"
	if len(p.Args) > 0 {
		op = p.Args[0]
	}
	for k := 1; k <= 12; k++ {
		var f *File
		var mf *govcMemFile
		var detail string
		bad := false
		work := func() {
			mf = newGovcMemFile(8 << 20)
			mf.failAt[op] = k
			var err error
			if op == "Truncate" {
				// a preallocated 2 MiB file reopened with a 1 MiB limit: the next commit truncates
				mf.failAt[op] = 0
				f0, err0 := openWith(mf, Options{MaxSize: 2 << 20, PageSize: 1024, Prealloc: true})
				if err0 != nil {
					return
				}
				f0.Close()
				mf.calls[op] = 0
				mf.failAt[op] = k
				f, err = openWith(mf, Options{MaxSize: 1 << 20, Flags: FlagUpdMaxSize})
			} else {
				f, err = openWith(mf, Options{MaxSize: 1 << 20, PageSize: 1024})
			}
			if err != nil {
				f = nil
				return
			}
			// grow: allocate more pages than the initial file holds, then free them again
			var ids []PageID
			for round := 0; round < 3 && f != nil; round++ {
				tx, err := f.Begin()
				if err != nil {
					return
				}
				pages, err := tx.AllocN(100)
				if err == nil {
					for _, pg := range pages {
						pg.SetBytes(make([]byte, 1024))
						ids = append(ids, pg.ID())
					}
				}
				cerr := tx.Commit()
				tx.Close()
				if cerr != nil {
					if p.Label == "mapping-survives-errors" && f.mapped == nil {
						bad = true
						detail = fmt.Sprintf("after failing %s#%d: Commit returned %q and left File.mapped == nil (meta[0]=%p still set)", op, k, cerr.Error(), f.meta[0])
					}
				}
			}
			tx, err := f.Begin()
			if err != nil {
				return
			}
			for _, id := range ids {
				if pg, err := tx.Page(id); err == nil {
					pg.Free()
				}
			}
			cerr := tx.Commit()
			tx.Close()
			if cerr != nil && p.Label == "mapping-survives-errors" && f.mapped == nil {
				bad = true
				detail = fmt.Sprintf("after failing %s#%d: Commit returned %q and left File.mapped == nil", op, k, cerr.Error())
			}
			// one more transaction reading a page: must not crash
			if rtx, err := f.BeginReadonly(); err == nil {
				if pg, err := rtx.Page(2); err == nil {
					pg.Bytes()
				}
				rtx.Close()
			}
		}
		var panicked bool
		var pv interface{}
		returned := govcWithin(10*time.Second, func() { panicked, pv = govcRecover(work) })
		if !returned {
			if p.Kind == "safety" || strings.Contains(p.Label, "lock") {
				return govcOutcome{reproduced: true, detail: fmt.Sprintf("workload hung with %s#%d failing", op, k)}
			}
			continue
		}
		if panicked {
			if govcPanicMatches(p, pv) {
				return govcOutcome{reproduced: true, detail: fmt.Sprintf("workload panicked with %s#%d failing: %v (calls: %v)", op, k, pv, mf.calls)}
			}
			continue
		}
		if bad {
			return govcOutcome{reproduced: true, detail: detail}
		}
		if f != nil {
			govcWithin(5*time.Second, func() { govcRecover(func() { f.Close() }) })
		}
	}
	return govcOutcome{detail: "no failing index of " + op + " (1..12) made the workload panic, hang or break the checked state"}
}

// ---------------------------------------------------------------------------
// scenario resize: reopen an existing file with FlagUpdMaxSize and a different
// maximum size, then use it.
// ---------------------------------------------------------------------------

func init() { govcScenarios["resize"] = govcResize }

func govcResize(t *testing.T, p *govcParams) govcOutcome {
	for _, newMax := range []uint64{2 << 20, 512 << 10, 0} {
		mf := newGovcMemFile(8 << 20)
		f, err := openWith(mf, Options{MaxSize: 1 << 20, PageSize: 4096})
		if err != nil {
			return govcOutcome{skip: "create failed: " + err.Error()}
		}
		tx, _ := f.Begin()
		pg, _ := tx.Alloc()
		pg.SetBytes([]byte("govc"))
		tx.SetRoot(pg.ID())
		if err := tx.Commit(); err != nil {
			return govcOutcome{skip: "setup commit failed: " + err.Error()}
		}
		f.Close()
		opts := Options{MaxSize: newMax, Flags: FlagUpdMaxSize}
		if newMax == 0 {
			opts.Flags |= FlagUnboundMaxSize
		}
		var f2 *File
		var oerr error
		returned := govcWithin(10*time.Second, func() { f2, oerr = openWith(mf, opts) })
		if !returned {
			return govcOutcome{reproduced: true, detail: fmt.Sprintf("openWith(FlagUpdMaxSize, MaxSize=%d) did not return", newMax)}
		}
		if oerr != nil {
			continue
		}
		state := fmt.Sprintf("after openWith(FlagUpdMaxSize, MaxSize=%d): pendingSet=%v sharedCount=%d", newMax, f2.locks.pendingSet, f2.locks.sharedCount)
		if f2.locks.pendingSet {
			blocked := !govcWithin(2*time.Second, func() {
				if rtx, err := f2.BeginReadonly(); err == nil {
					rtx.Close()
				}
			})
			return govcOutcome{reproduced: true, detail: fmt.Sprintf("%s; BeginReadonly blocked=%v", state, blocked)}
		}
		ok := govcWithin(2*time.Second, func() {
			if rtx, err := f2.BeginReadonly(); err == nil {
				rtx.Close()
			}
		})
		if !ok {
			return govcOutcome{reproduced: true, detail: state + "; BeginReadonly blocked"}
		}
	}
	return govcOutcome{detail: "grow, shrink and unbound all left the lock idle and readers could begin"}
}

// ---------------------------------------------------------------------------
// scenario pagemethod: a public *Page method in a given life-cycle state
//   args[0] = method; witness: p.tx.flags.active/readonly, p.flags.freed/flushed/dirty/new
// ---------------------------------------------------------------------------

func init() { govcScenarios["pagemethod"] = govcPageMethod }

func govcPageMethod(t *testing.T, p *govcParams) govcOutcome {
	method := ""
	if len(p.Args) > 0 {
		method = p.Args[0]
	}
	active := p.boolW("p.tx.flags.active", true)
	readonly := p.boolW("p.tx.flags.readonly", false)
	freed := p.boolW("p.flags.freed", false)
	flushed := p.boolW("p.flags.flushed", false)
	dirty := p.boolW("p.flags.dirty", false)
	isNew := p.boolW("p.flags.new", false)
	f, _, err := govcOpen(Options{})
	if err != nil {
		return govcOutcome{skip: "open failed: " + err.Error()}
	}
	var rootID PageID
	{
		tx, _ := f.Begin()
		pg, _ := tx.Alloc()
		pg.SetBytes(make([]byte, 16))
		rootID = pg.ID()
		tx.SetRoot(rootID)
		if err := tx.Commit(); err != nil {
			return govcOutcome{skip: "setup commit failed: " + err.Error()}
		}
	}
	tx, err := f.BeginWith(TxOptions{Readonly: readonly})
	if err != nil {
		return govcOutcome{skip: "begin failed: " + err.Error()}
	}
	var pg *Page
	if isNew && !readonly {
		pg, err = tx.Alloc()
	} else {
		pg, err = tx.Page(rootID)
	}
	if err != nil || pg == nil {
		return govcOutcome{skip: fmt.Sprintf("cannot get page: %v", err)}
	}
	if !readonly {
		if dirty || flushed {
			pg.SetBytes(make([]byte, f.PageSize()))
		}
		if flushed {
			pg.Flush()
		}
		if freed && !dirty && !flushed {
			pg.Free()
		}
	}
	if !active {
		tx.Close()
	}
	snapshot := func() string {
		return fmt.Sprintf("%+v|%v|%+v|%v", f.allocator, f.metaActive, pg.flags, len(pg.bytes))
	}
	before := snapshot()
	var callErr error
	call := func() {
		switch method {
		case "MarkDirty":
			callErr = pg.MarkDirty()
		case "Free":
			callErr = pg.Free()
		case "Bytes":
			_, callErr = pg.Bytes()
		case "Load":
			callErr = pg.Load()
		case "SetBytes":
			callErr = pg.SetBytes(make([]byte, 8))
		case "SetBytesOversize":
			callErr = pg.SetBytes(make([]byte, f.PageSize()+1))
		case "Flush":
			callErr = pg.Flush()
		default:
			panic("govc: unknown method " + method)
		}
	}
	var panicked bool
	var pv interface{}
	returned := govcWithin(5*time.Second, func() { panicked, pv = govcRecover(call) })
	after := snapshot()
	state := fmt.Sprintf("Page.%s on page(new=%v dirty=%v flushed=%v freed=%v) of tx(active=%v readonly=%v)", method, isNew, dirty, flushed, freed, active, readonly)
	if !returned {
		return govcOutcome{reproduced: true, detail: state + " did not return within 5s"}
	}
	if panicked {
		if govcPanicMatches(p, pv) {
			return govcOutcome{reproduced: true, detail: fmt.Sprintf("%s panicked: %v", state, pv)}
		}
		return govcOutcome{detail: fmt.Sprintf("%s panicked (%v), but that is not what this obligation is about", state, pv)}
	}
	if p.Kind == "ensures" {
		wantKind := func(k ErrKind) bool { return callErr != nil && txerr.Is(k, callErr) }
		misuse := false
		switch p.Label {
		case "finished-is-an-error":
			misuse = !active
			if misuse && !(wantKind(TxFinished) || wantKind(TxReadOnly)) {
				return govcOutcome{reproduced: true, detail: fmt.Sprintf("%s returned %v, want TxFinished", state, callErr)}
			}
		case "readonly-is-an-error":
			misuse = active && readonly
			if misuse && !wantKind(TxReadOnly) {
				return govcOutcome{reproduced: true, detail: fmt.Sprintf("%s returned %v, want TxReadOnly", state, callErr)}
			}
		case "freed-or-flushed-is-an-error", "dirty-is-an-error":
			misuse = active && !readonly && (freed || flushed || (p.Label == "dirty-is-an-error" && dirty))
			if misuse && !wantKind(InvalidOp) {
				return govcOutcome{reproduced: true, detail: fmt.Sprintf("%s returned %v, want InvalidOp", state, callErr)}
			}
		}
		if misuse && before != after {
			return govcOutcome{reproduced: true, detail: fmt.Sprintf("%s changed state: %s -> %s", state, before, after)}
		}
	}
	return govcOutcome{detail: fmt.Sprintf("%s returned err=%v", state, callErr)}
}

// ---------------------------------------------------------------------------
// scenario headers: set the transaction ids / validity of the two header slots
// of a committed file as the model says and reopen it.
//   witness: slot0(f).txid, slot1AsRead(f).txid, validPage(slot0(f)), validPage(slot1AsRead(f))
// ---------------------------------------------------------------------------

func init() { govcScenarios["headers"] = govcHeaders }

func govcHeaders(t *testing.T, p *govcParams) govcOutcome {
	tx0 := p.uintW("slot0(f).txid", 5)
	tx1 := p.uintW("slot1AsRead(f).txid", 4)
	v0 := p.boolW("validPage(slot0(f))", true)
	v1 := p.boolW("validPage(slot1AsRead(f))", true)
	mf := newGovcMemFile(8 << 20)
	const ps = 4096
	f, err := openWith(mf, Options{MaxSize: 1 << 20, PageSize: ps})
	if err != nil {
		return govcOutcome{skip: "create failed: " + err.Error()}
	}
	for i := 0; i < 2; i++ { // two commits so that both slots describe usable states
		tx, _ := f.Begin()
		pg, _ := tx.Alloc()
		pg.SetBytes([]byte{byte('A' + i)})
		tx.SetRoot(pg.ID())
		if err := tx.Commit(); err != nil {
			return govcOutcome{skip: "setup commit failed: " + err.Error()}
		}
	}
	f.Close()
	m0 := castMetaPage(mf.mem[0:])
	m1 := castMetaPage(mf.mem[ps:])
	m0.txid.Set(tx0)
	m1.txid.Set(tx1)
	m0.Finalize()
	m1.Finalize()
	if !v0 {
		m0.checksum.Set(m0.checksum.Get() ^ 0x5a5a)
	}
	if !v1 {
		m1.checksum.Set(m1.checksum.Get() ^ 0x5a5a)
	}
	if p.Label == "intact-slot-1-is-found-when-slot-0-is-damaged" {
		// damage confined to the page size field of slot 0 (the model's value if it is a damaged one, else one flipped bit);
		// slot 1 stays intact and is the newest header
		m0.txid.Set(4)
		m1.txid.Set(5)
		m0.Finalize()
		m1.Finalize()
		bad := uint32(p.uintW("slot0(f).pageSize", 0))
		if bad == ps || bad == 0 {
			bad = ps ^ (1 << 13)
		}
		m0.pageSize.Set(bad)
		var f3 *File
		var oerr error
		panicked, pv := false, interface{}(nil)
		returned := govcWithin(10*time.Second, func() { panicked, pv = govcRecover(func() { f3, oerr = openWith(mf, Options{}) }) })
		state := fmt.Sprintf("open with slot0(page size field damaged: %d instead of %d) and intact, newest slot1", bad, ps)
		switch {
		case !returned:
			return govcOutcome{reproduced: true, detail: state + " did not return"}
		case panicked:
			return govcOutcome{reproduced: true, detail: fmt.Sprintf("%s panicked: %v", state, pv)}
		case oerr != nil:
			return govcOutcome{reproduced: true, detail: fmt.Sprintf("%s: open failed (%v) although slot 1 is intact", state, oerr)}
		}
		defer f3.Close()
		if f3.metaActive != 1 {
			return govcOutcome{reproduced: true, detail: fmt.Sprintf("%s: slot %d became active", state, f3.metaActive)}
		}
		return govcOutcome{detail: state + ": slot 1 active as required"}
	}
	root0, root1 := m0.root.Get(), m1.root.Get()
	var f2 *File
	var oerr error
	var panicked bool
	var pv interface{}
	returned := govcWithin(10*time.Second, func() { panicked, pv = govcRecover(func() { f2, oerr = openWith(mf, Options{}) }) })
	state := fmt.Sprintf("open with slot0(txid=%d valid=%v root=%d) slot1(txid=%d valid=%v root=%d)", tx0, v0, root0, tx1, v1, root1)
	if !returned {
		return govcOutcome{reproduced: true, detail: state + " did not return"}
	}
	if panicked {
		if govcPanicMatches(p, pv) {
			return govcOutcome{reproduced: true, detail: fmt.Sprintf("%s panicked: %v", state, pv)}
		}
		return govcOutcome{detail: fmt.Sprintf("%s panicked (%v), but that is not what this obligation is about", state, pv)}
	}
	want := -1
	switch {
	case v0 && v1:
		if int64(tx0-tx1) > 0 {
			want = 0
		} else {
			want = 1
		}
	case v0:
		want = 0
	case v1:
		want = 1
	}
	if want == -1 {
		if oerr == nil {
			return govcOutcome{reproduced: true, detail: state + ": both headers invalid but open succeeded"}
		}
		return govcOutcome{detail: state + ": open failed as required: " + oerr.Error()}
	}
	if oerr != nil {
		return govcOutcome{reproduced: true, detail: fmt.Sprintf("%s: open failed (%v) although slot %d is intact", state, oerr, want)}
	}
	defer f2.Close()
	if f2.metaActive != want {
		return govcOutcome{reproduced: true, detail: fmt.Sprintf("%s: slot %d became active, the newest intact header is slot %d", state, f2.metaActive, want)}
	}
	return govcOutcome{detail: fmt.Sprintf("%s: slot %d active as required", state, want)}
}

// ---------------------------------------------------------------------------
// scenario commitfault: Commit with an injected I/O failure; checks what a
// failing Commit left behind (published header slot, overwrite mapping,
// allocator vs. header, lock state).
// ---------------------------------------------------------------------------

func init() { govcScenarios["commitfault"] = govcCommitFault }

func govcCommitFault(t *testing.T, p *govcParams) govcOutcome {
	type attempt struct {
		op     string
		shrink bool
	}
	var attempts []attempt
	for _, op := range []string{"Truncate", "MMap", "Sync", "WriteAt", "Size"} {
		attempts = append(attempts, attempt{op, true}, attempt{op, false})
	}
	for _, at := range attempts {
		for k := 1; k <= 8; k++ {
			var detail string
			bad := false
			var mf *govcMemFile
			work := func() {
				mf = newGovcMemFile(8 << 20)
				var f *File
				var err error
				if at.shrink {
					f0, err0 := openWith(mf, Options{MaxSize: 2 << 20, PageSize: 1024, Prealloc: true})
					if err0 != nil {
						return
					}
					f0.Close()
					f, err = openWith(mf, Options{MaxSize: 1 << 20, Flags: FlagUpdMaxSize})
				} else {
					f, err = openWith(mf, Options{MaxSize: 4 << 20, PageSize: 1024})
				}
				if err != nil {
					return
				}
				mf.calls[at.op] = 0
				mf.failAt[at.op] = k
				for round := 0; round < 3; round++ {
					tx, err := f.Begin()
					if err != nil {
						return
					}
					pages, err := tx.AllocN(90)
					if err == nil {
						for _, pg := range pages {
							pg.SetBytes(make([]byte, 1024))
						}
					}
					activeBefore := f.metaActive
					mappingBefore := fmt.Sprint(f.wal.mapping)
					cerr := tx.Commit()
					tx.Close()
					if cerr == nil {
						continue
					}
					state := fmt.Sprintf("Commit failed (%v) with %s#%d failing (shrunk file: %v)", cerr, at.op, k, at.shrink)
					published := f.metaActive != activeBefore || fmt.Sprint(f.wal.mapping) != mappingBefore
					switch p.Label {
					case "nothing-published-on-error", "nothing-published-on-late-map-failure":
						if published {
							meta := f.getMetaPage()
							bad = true
							detail = fmt.Sprintf("%s, yet the new header slot %d is active (header dataEnd=%d, allocator dataEnd=%d after rollback)",
								state, f.metaActive, meta.dataEndMarker.Get(), f.allocator.data.endMarker)
						}
					case "commit-locks-released":
						if f.locks.pendingSet {
							bad = true
							detail = state + " and left the pending lock set"
						}
					}
					if bad {
						return
					}
					// readers must be able to begin after a failed commit
					if p.Label == "commit-locks-released" {
						ok := govcWithin(2*time.Second, func() {
							if rtx, err := f.BeginReadonly(); err == nil {
								rtx.Close()
							}
						})
						if !ok {
							bad = true
							detail = state + "; a later BeginReadonly blocked"
							return
						}
					}
				}
			}
			var panicked bool
			var pv interface{}
			returned := govcWithin(10*time.Second, func() { panicked, pv = govcRecover(work) })
			if !returned {
				if strings.Contains(p.Label, "lock") || p.Kind == "safety" {
					return govcOutcome{reproduced: true, detail: fmt.Sprintf("workload hung with %s#%d failing", at.op, k)}
				}
				continue
			}
			if panicked {
				if govcPanicMatches(p, pv) {
					return govcOutcome{reproduced: true, detail: fmt.Sprintf("workload panicked with %s#%d failing: %v", at.op, k, pv)}
				}
				continue
			}
			if bad {
				return govcOutcome{reproduced: true, detail: detail}
			}
		}
	}
	return govcOutcome{detail: "no injected failure (Truncate/MMap/Sync/WriteAt/Size, call 1..8, grown and shrunk files) left the forbidden state"}
}

// ---------------------------------------------------------------------------
// scenario writerbatch: drive the bare writer with batches that contain two
// writes to one page; every page must receive its writes in schedule order.
// ---------------------------------------------------------------------------

type govcRecTarget struct {
	mu  sync.Mutex
	log []string // "page:tag"
}

func (r *govcRecTarget) WriteAt(p []byte, off int64) (int, error) {
	r.mu.Lock()
	defer r.mu.Unlock()
	r.log = append(r.log, fmt.Sprintf("%d:%d", off/64, p[0]))
	return len(p), nil
}

func (r *govcRecTarget) Sync(vfs.SyncFlag) error { return nil }

func init() { govcScenarios["writerbatch"] = govcWriterBatch }

type govcFailTarget struct {
	mu        sync.Mutex
	failSync  int // fail the k-th Sync
	failWrite int // fail the k-th WriteAt
	syncs     int
	writes    int
	executed  []string
}

func (r *govcFailTarget) WriteAt(p []byte, off int64) (int, error) {
	r.mu.Lock()
	defer r.mu.Unlock()
	r.writes++
	if r.writes == r.failWrite {
		return 0, errGovcInjected
	}
	r.executed = append(r.executed, fmt.Sprintf("W%d", off/64))
	return len(p), nil
}

func (r *govcFailTarget) Sync(vfs.SyncFlag) error {
	r.mu.Lock()
	defer r.mu.Unlock()
	r.syncs++
	if r.syncs == r.failSync {
		return errGovcInjected
	}
	r.executed = append(r.executed, "S")
	return nil
}

// govcWriterSticky: a failing write or sync makes the writer skip I/O until a
// sync with the reset flag was answered; after that it must work again.
func govcWriterSticky(p *govcParams) govcOutcome {
	for _, mode := range []string{"sync", "write"} {
		target := &govcFailTarget{}
		if mode == "sync" {
			target.failSync = 1
		} else {
			target.failWrite = 1
		}
		var w writer
		w.Init(target, 64, SyncData)
		done := make(chan struct{})
		go func() { defer close(done); w.Run() }()
		ws1 := newTxWriteSync()
		w.Schedule(ws1, 5, []byte{1})
		w.Sync(ws1, syncDataOnly|syncResetErr) // last sync of the failing "transaction"
		err1 := ws1.Wait()
		ws2 := newTxWriteSync()
		w.Schedule(ws2, 6, []byte{2})
		w.Sync(ws2, syncDataOnly|syncResetErr)
		err2 := ws2.Wait()
		w.Stop()
		<-done
		if err1 == nil {
			return govcOutcome{detail: "injected failure was not reported: " + mode}
		}
		if err2 != nil {
			return govcOutcome{reproduced: true, detail: fmt.Sprintf("after a failing %s answered by a reset sync, the next handle still fails with %v although no further I/O failed (executed: %v)", mode, err2, target.executed)}
		}
	}
	return govcOutcome{detail: "writer recovered after the reset sync in both modes"}
}

func govcWriterBatch(t *testing.T, p *govcParams) govcOutcome {
	if strings.Contains(p.Label, "reset-sync") || strings.Contains(p.Label, "sticky") || strings.Contains(p.Label, "error-kept") {
		return govcWriterSticky(p)
	}
	for n := 2; n <= 40; n++ { // batch sizes
		for dupA := 0; dupA < n; dupA++ {
			dupB := n - 1 // the last message rewrites the page of message dupA
			if dupA == dupB {
				continue
			}
			target := &govcRecTarget{}
			var w writer
			w.Init(target, 64, SyncNone)
			ws := newTxWriteSync()
			// queue the whole batch before the writer loop starts, so that it is one command
			ids := make([]PageID, n)
			for i := 0; i < n; i++ {
				ids[i] = PageID(100 - i) // descending: the sort has work to do
			}
			ids[dupB] = ids[dupA]
			for i := 0; i < n; i++ {
				w.Schedule(ws, ids[i], []byte{byte(i), 0, 0, 0})
			}
			w.Sync(ws, syncDataOnly)
			done := make(chan struct{})
			go func() { defer close(done); w.Run() }()
			ws.Wait()
			w.Stop()
			<-done
			// last write to the duplicated page must be the later scheduled one
			last := ""
			for _, e := range target.log {
				if strings.HasPrefix(e, fmt.Sprintf("%d:", ids[dupA])) {
					last = e
				}
			}
			want := fmt.Sprintf("%d:%d", ids[dupA], dupB)
			if last != want {
				return govcOutcome{reproduced: true, detail: fmt.Sprintf("batch of %d writes, messages %d and %d both target page %d: the page ends with the contents of message %s, scheduled order demands %s (write log %v)", n, dupA, dupB, ids[dupA], last, want, target.log)}
			}
		}
	}
	return govcOutcome{detail: "every batch shape (2..40 messages, one duplicated page) kept the per-page write order"}
}

// ---------------------------------------------------------------------------
// scenario allocrollback: run write transactions with different allocation /
// free patterns and abort them; the allocator must be exactly as before the
// transaction began and later allocations must hand out distinct, unused pages.
// ---------------------------------------------------------------------------

func init() { govcScenarios["allocrollback"] = govcAllocRollback }

func govcAllocSnapshot(f *File) string {
	a := &f.allocator
	return fmt.Sprintf("data(end=%d avail=%d regions=%v) meta(end=%d avail=%d regions=%v) metaTotal=%d",
		a.data.endMarker, a.data.freelist.avail, a.data.freelist.regions, a.meta.endMarker, a.meta.freelist.avail, a.meta.freelist.regions, a.metaTotal)
}

func govcAllocRollback(t *testing.T, p *govcParams) govcOutcome {
	type body struct {
		name string
		run  func(tx *Tx) error
	}
	bodies := []body{
		{"alloc 3 from end, free the first", func(tx *Tx) error {
			ps, err := tx.AllocN(3)
			if err != nil {
				return err
			}
			return ps[0].Free()
		}},
		{"alloc 3 from end, free the middle", func(tx *Tx) error {
			ps, err := tx.AllocN(3)
			if err != nil {
				return err
			}
			return ps[1].Free()
		}},
		{"alloc 1 from end, free it, alloc again", func(tx *Tx) error {
			pg, err := tx.Alloc()
			if err != nil {
				return err
			}
			if err := pg.Free(); err != nil {
				return err
			}
			_, err = tx.Alloc()
			return err
		}},
		{"alloc 2 (free list first), free both", func(tx *Tx) error {
			ps, err := tx.AllocN(2)
			if err != nil {
				return err
			}
			for _, pg := range ps {
				if err := pg.Free(); err != nil {
					return err
				}
			}
			return nil
		}},
		{"alloc 4, free the last two", func(tx *Tx) error {
			ps, err := tx.AllocN(4)
			if err != nil {
				return err
			}
			ps[3].Free()
			return ps[2].Free()
		}},
	}
	for _, unbounded := range []bool{false, true} {
		for _, withFreeList := range []bool{false, true} {
			for _, bd := range bodies {
				opts := Options{MaxSize: 1 << 20, PageSize: 1024}
				if unbounded {
					opts = Options{PageSize: 1024, Flags: FlagUnboundMaxSize}
				}
				f, _, err := govcOpen(opts)
				if err != nil {
					return govcOutcome{skip: "open failed: " + err.Error()}
				}
				// committed prefix: 4 live pages, optionally two of them freed again (free list not empty)
				tx, _ := f.Begin()
				ps, err := tx.AllocN(4)
				if err != nil {
					return govcOutcome{skip: "setup alloc failed: " + err.Error()}
				}
				for _, pg := range ps {
					pg.SetBytes([]byte{1})
				}
				tx.SetRoot(ps[0].ID())
				if err := tx.Commit(); err != nil {
					return govcOutcome{skip: "setup commit failed: " + err.Error()}
				}
				live := map[PageID]bool{ps[0].ID(): true, ps[1].ID(): true, ps[2].ID(): true, ps[3].ID(): true}
				if withFreeList {
					tx, _ := f.Begin()
					for _, pg := range ps[1:3] {
						q, _ := tx.Page(pg.ID())
						q.Free()
						delete(live, pg.ID())
					}
					if err := tx.Commit(); err != nil {
						return govcOutcome{skip: "setup free failed: " + err.Error()}
					}
				}
				before := govcAllocSnapshot(f)
				atx, err := f.Begin()
				if err != nil {
					return govcOutcome{skip: "begin failed: " + err.Error()}
				}
				berr := bd.run(atx)
				atx.Rollback()
				after := govcAllocSnapshot(f)
				cfg := fmt.Sprintf("[unbounded=%v free-list=%v] aborted tx body %q (body err=%v)", unbounded, withFreeList, bd.name, berr)
				if before != after {
					return govcOutcome{reproduced: true, detail: fmt.Sprintf("%s left a trace: allocator before %s, after rollback %s", cfg, before, after)}
				}
				// later allocations: distinct, never a live page
				ntx, _ := f.Begin()
				got, err := ntx.AllocN(6)
				if err == nil {
					seen := map[PageID]bool{}
					for _, pg := range got {
						if seen[pg.ID()] || live[pg.ID()] || pg.ID() < 2 {
							ids := []PageID{}
							for _, x := range got {
								ids = append(ids, x.ID())
							}
							return govcOutcome{reproduced: true, detail: fmt.Sprintf("%s: the next AllocN(6) returned %v (duplicate or live page %d)", cfg, ids, pg.ID())}
						}
						seen[pg.ID()] = true
					}
				}
				ntx.Rollback()
				f.Close()
			}
		}
	}
	return govcOutcome{detail: "every aborted transaction body left the allocator exactly as before"}
}

// ---------------------------------------------------------------------------
// scenario regioncodec: free-list entry codec. The model's region (witness
// reg.id / reg.count / isMeta) and the boundary counts are encoded with the
// real encoder and decoded with the real decoder; reproduced if the round trip
// or the predicted size disagrees.
// ---------------------------------------------------------------------------

func init() { govcScenarios["regioncodec"] = govcRegionCodec }

func govcRegionCodec(t *testing.T, p *govcParams) govcOutcome {
	type cand struct {
		meta bool
		reg  region
	}
	id := PageID(p.uintW("reg.id", 9))
	if v, ok := p.Witness["r.id"]; ok && v != "" {
		id = PageID(p.uintW("r.id", 9))
	}
	id &= (1 << 55) - 1
	cnt := uint32(p.uintW("reg.count", 255))
	if _, ok := p.Witness["r.count"]; ok {
		cnt = uint32(p.uintW("r.count", 255))
	}
	if cnt == 0 {
		cnt = 1
	}
	cands := []cand{{p.boolW("isMeta", false), region{id: id, count: cnt}}}
	for _, c := range []uint32{1, 2, 253, 254, 255, 256, 257, 1 << 16, 1<<32 - 1} {
		cands = append(cands, cand{false, region{id: id, count: c}}, cand{true, region{id: 2, count: c}})
	}
	for _, c := range cands {
		var buf [maxRegionEncSz + 8]byte
		for i := range buf {
			buf[i] = 0xEE
		}
		n := encodeRegion(buf[:], c.meta, c.reg)
		if want := regionEncodingSize(c.reg); n != want {
			return govcOutcome{reproduced: true, detail: fmt.Sprintf("encodeRegion(%+v) wrote %d bytes, regionEncodingSize says %d", c.reg, n, want)}
		}
		for i := n; i < len(buf); i++ {
			if buf[i] != 0xEE {
				return govcOutcome{reproduced: true, detail: fmt.Sprintf("encodeRegion(%+v) wrote beyond its %d bytes (offset %d)", c.reg, n, i)}
			}
		}
		m, r, dn := decodeRegion(buf[:])
		if m != c.meta || r != c.reg || dn != n {
			return govcOutcome{reproduced: true, detail: fmt.Sprintf("decode(encode(meta=%v, %+v)) = (meta=%v, %+v, %d bytes), encoded in %d bytes", c.meta, c.reg, m, r, dn, n)}
		}
	}
	return govcOutcome{detail: fmt.Sprintf("round trip and size agree for %d regions incl. the model's {%d %d}", len(cands), id, cnt)}
}

// ---------------------------------------------------------------------------
// scenario mergelists: mergeRegionLists must return a list that does not share
// its array with an input (commit-time lists are edited in place afterwards).
// ---------------------------------------------------------------------------

func init() { govcScenarios["mergelists"] = govcMergeLists }

func govcMergeLists(t *testing.T, p *govcParams) govcOutcome {
	mk := func() regionList { return regionList{{id: 10, count: 5}, {id: 40, count: 60}} }
	for _, tc := range []struct{ a, b regionList }{{mk(), nil}, {nil, mk()}, {mk(), regionList{{id: 200, count: 1}}}} {
		res := mergeRegionLists(tc.a, tc.b)
		if len(res) == 0 {
			continue
		}
		for _, in := range []regionList{tc.a, tc.b} {
			if len(in) > 0 && &in[0] == &res[0] {
				before := in[len(in)-1]
				res[len(res)-1].count = 1 // what releaseOverflowPages does to the merged list
				return govcOutcome{reproduced: true, detail: fmt.Sprintf("mergeRegionLists(%v, %v) returned one of its inputs: trimming the result changed the input's last region %v -> %v", len(tc.a), len(tc.b), before, in[len(in)-1])}
			}
		}
	}
	return govcOutcome{detail: "result never aliases an input"}
}
