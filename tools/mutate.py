#!/usr/bin/env python3
"""Development aid: small mutation campaign against the contracts of single functions.

usage: mutate.py <worktree> <file> <func-regexp-for-govc> <go-func-name> [max]

For the Go function <go-func-name> in <worktree>/<file> applies simple operator mutations one
at a time, keeps those that still build, and runs `govc func <regexp> --repo <worktree> --fast`.
Prints one line per mutant: CAUGHT (some obligation failed or became undecided) or SURVIVED.
Survivors are either equivalent mutants, behaviour no contract pins down, or behaviour outside
the listed properties - they are read by hand, nothing is decided automatically.
"""
import re, subprocess, sys, os

wt, rel, rx, fname = sys.argv[1:5]
maxm = int(sys.argv[5]) if len(sys.argv) > 5 else 12
path = os.path.join(wt, rel)
src = open(path).read().split('\n')
start = None
for i, l in enumerate(src):
    if re.match(r'^func (\([^)]*\) )?%s\(' % re.escape(fname), l):
        start = i
        break
if start is None:
    sys.exit('function not found')
end = start
while not src[end].startswith('}'):
    end += 1
OPS = [(' < ', ' <= '), (' <= ', ' < '), (' > ', ' >= '), (' >= ', ' > '), (' == ', ' != '), (' != ', ' == '),
       (' + ', ' - '), (' - ', ' + '), (' += ', ' -= '), (' -= ', ' += '), (' && ', ' || '), (' || ', ' && '),
       ('++', '--'), (' = true', ' = false'), (' = false', ' = true'), ('!ok', 'ok'), (' == 0', ' == 1'), (' = 0', ' = 1')]
muts = []
for i in range(start + 1, end):
    l = src[i]
    if l.strip().startswith('//') or 'tracef' in l or 'const op' in l:
        continue
    for a, b in OPS:
        if a in l:
            muts.append((i, a, b))
step = max(1, len(muts) // maxm)
muts = muts[::step][:maxm]
env = dict(os.environ, GOFLAGS='-mod=mod', GOPROXY='off', GOSUMDB='off', GOTOOLCHAIN='local')
caught = survived = 0
for (i, a, b) in muts:
    m = list(src)
    m[i] = m[i].replace(a, b, 1)
    open(path, 'w').write('\n'.join(m))
    try:
        pkg = './' + os.path.dirname(rel) if os.path.dirname(rel) else '.'
        if subprocess.run(['go', 'build', pkg], cwd=wt, env=env, capture_output=True).returncode != 0:
            print('NOBUILD  %s:%d  %r -> %r' % (rel, i + 1, a, b))
            continue
        out = subprocess.run(['/verif/bin/govc', 'func', rx, '--repo', wt, '--fast'], cwd='/verif', capture_output=True, text=True).stdout
        last = [x for x in out.split('\n') if x.startswith('property=')]
        ok = False
        if last:
            mm = re.search(r'failed=(\d+) undecided=(\d+)', last[-1])
            ok = mm and (int(mm.group(1)) > 0 or int(mm.group(2)) > 0)
        names = [re.search(r'\)?\.?([A-Za-z]+/[a-z\-]+\[[^\]]*\])', x) for x in out.split('\n') if re.match(r'\s+(sat|unknown|timeout)', x)]
        names = [n.group(1) for n in names if n][:2]
        if ok:
            caught += 1
            print('CAUGHT   %s:%d  %r -> %r   %s   | %s' % (rel, i + 1, a, b, ' '.join(names), src[i].strip()[:70]))
        else:
            survived += 1
            print('SURVIVED %s:%d  %r -> %r   | %s' % (rel, i + 1, a, b, src[i].strip()[:90]))
    finally:
        open(path, 'w').write('\n'.join(src))
print('summary %s: caught=%d survived=%d' % (fname, caught, survived))
