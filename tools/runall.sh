#!/bin/bash
# development aid: run every claimed quick check in sequence and print one line per property
cd /verif
props=${@:-$(python3 -c "import json;print(' '.join(c['property_id'] for c in json.load(open('MANIFEST.json'))['checks']))")}
for p in $props; do
  s=$(date +%s)
  ./bin/govc check $p --tier quick $GOVC_EXTRA > /tmp/chk_$p.log 2>&1
  rc=$?
  echo "$p exit=$rc $(( $(date +%s) - s ))s $(tail -1 /tmp/chk_$p.log)"
done
