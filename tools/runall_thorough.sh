#!/bin/bash
# development aid: run every claimed thorough check in sequence (evidence files are restored afterwards by the caller if wanted)
cd /verif
props=${@:-$(python3 -c "import json;print(' '.join(c['property_id'] for c in json.load(open('MANIFEST.json'))['checks']))")}
for p in $props; do
  s=$(date +%s)
  ./bin/govc check $p --tier thorough > /tmp/chkT_$p.log 2>&1
  rc=$?
  echo "$p exit=$rc $(( $(date +%s) - s ))s $(tail -1 /tmp/chkT_$p.log)"
done
