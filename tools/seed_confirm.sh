#!/bin/bash
# usage: seed_confirm.sh <seed-id> <srcdir-with-OUT>   e.g. seed_confirm.sh C15-markdirty /tmp/seed/C15
# Confirms a seeded change in a scratch worktree of /repo: builds, passes the existing suite,
# demo fails with the change and passes without it. Copies it to /verif/seeded/<id>/ on success.
set -u
id=$1; src=$2
export GOFLAGS=-mod=mod GOPROXY=off GOSUMDB=off GOTOOLCHAIN=local
wt=/tmp/confirm/$id
rm -rf $wt; mkdir -p /tmp/confirm
git -C /repo worktree add -q --detach $wt HEAD || exit 2
cleanup() { git -C /repo worktree remove --force $wt; }
trap cleanup EXIT
cd $wt
pkgdir=.
if grep -q "^package pq" $src/OUT/demo_test.go; then pkgdir=pq; fi
log=/tmp/confirm/$id.log; : > $log
# without the change: demo must pass
cp $src/OUT/demo_test.go $pkgdir/zz_seed_demo_test.go
if ! go test -vet=off -count=1 -timeout 10m -run 'Seed|seed|Demo|demo' ./$pkgdir >>$log 2>&1; then echo "FAIL: demo does not pass on the unchanged tree"; tail -5 $log; exit 1; fi
rm $pkgdir/zz_seed_demo_test.go
# with the change
if ! git apply $src/OUT/patch.diff >>$log 2>&1; then echo "FAIL: patch does not apply"; tail -3 $log; exit 1; fi
if ! go build ./... >>$log 2>&1; then echo "FAIL: does not build"; exit 1; fi
if ! go test -vet=off -count=1 -timeout 25m ./... >>$log 2>&1; then
  # randomised pq tests: one retry
  if ! go test -vet=off -count=1 -timeout 25m ./... >>$log 2>&1; then echo "FAIL: existing suite fails with the change"; grep -E "^(FAIL|---)" $log | head; exit 1; fi
fi
cp $src/OUT/demo_test.go $pkgdir/zz_seed_demo_test.go
if go test -vet=off -count=1 -timeout 10m -run 'Seed|seed|Demo|demo' ./$pkgdir >>$log 2>&1; then echo "FAIL: demo passes with the change"; exit 1; fi
mkdir -p /verif/seeded/$id
cp $src/OUT/patch.diff /verif/seeded/$id/patch.diff
cp $src/OUT/demo_test.go /verif/seeded/$id/demo_test.go
cp $src/OUT/meta.json /verif/seeded/$id/meta.agent.json
echo "CONFIRMED $id (build ok, suite ok with change, demo passes without / fails with)"
