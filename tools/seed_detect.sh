#!/bin/bash
# usage: seed_detect.sh <seed-id> [property ...]
# Applies /verif/seeded/<id>/patch.diff to a scratch worktree of /repo HEAD and runs the checks there.
set -u
id=$1; shift
props="$@"
wt=/tmp/detect/$id
rm -rf $wt; mkdir -p /tmp/detect
git -C /repo worktree add -q --detach $wt HEAD || exit 2
trap "git -C /repo worktree remove --force $wt" EXIT
git -C $wt apply /verif/seeded/$id/patch.diff || { echo "patch does not apply"; exit 2; }
mkdir -p /tmp/detect/verif-$id
for d in scenarios lemmas baseline known_findings.json properties.jsonl; do ln -sfn /verif/$d /tmp/detect/verif-$id/$d; done
if [ -z "$props" ]; then props=$(jq -r '.checks[].property_id' /verif/MANIFEST.json); fi
for p in $props; do
  out=$(cd /verif && ./bin/govc check $p --repo $wt --verif /tmp/detect/verif-$id --nolock 2>&1)
  echo "$out" | grep -E "^(VIOLATION|UNDECIDED|KNOWN)" | sed "s/^/[$p] /" | cut -c1-260
  echo "$out" | tail -1 | sed "s/^/[$p] /" | cut -c1-160
done
rm -rf /tmp/detect/verif-$id
