#!/bin/bash
# development aid: run seed_detect.sh for "<seed-id> <prop> [<prop>...]" lines read from stdin; one log per seed under /tmp
cd /verif
while read id props; do
  [ -z "$id" ] && continue
  ./tools/seed_detect.sh $id $props > /tmp/detect_$id.log 2>&1
  echo "== $id [$props]"; grep -E "VIOLATION|UNDECIDED" /tmp/detect_$id.log | cut -c1-230 | head -6
done
