#!/usr/bin/env python3
# Regenerates MANIFEST.json from the table below (kept in one place so that the
# claimed level, notes and not_applicable list stay consistent).
import json, subprocess

props = [json.loads(l) for l in open('/verif/properties.jsonl')]
hook_commits = subprocess.run(['git','-C','/repo','log','--format=%h %s'],capture_output=True,text=True).stdout.splitlines()
hooks = [l.split()[0] for l in hook_commits if ' verif hook:' in l]

TECH = "contracts on the real functions + weakest-precondition style VC generation over go/ssa (govc) + SMT (z3 5.1, z3 4.8, cvc5)"

claims = {
 "C01": ("mechanism obligations of the commit protocol proved per function: ghost I/O protocol of the writer front end (data/meta pages -> sync -> exactly one header write to the inactive slot -> sync; no header write on error exits; header = active header with root, txid+1, allocator/WAL fields and a checksum finalised over the final values; tryCommitChangesToFile/syncNewMeta/prepareMetaBuffer); shadow-paging targets of Page.doFlush (a committed page is never written in place: first overwrite goes to a freshly allocated overwrite page, a redirected page goes back to its own unreferenced id and its overwrite page is freed deferred); publication only to the written slot; writer back end: barrier (nextCommand hands a sync out only together with every write scheduled before it, FIFO batches, verified under the monitor rule), sticky error (no I/O while in error state, cleared only by a reset sync, recorded on every message's sync handle); truncate lower bound; header validation; recovery picks the valid header with the newer txid in wrap-around order; deferred free of committed pages",
         'Not decided: the crash-point x lost-write quantifier itself (no mechanised composition lemma), flushPages (the loop over the page cache) and the serialisation callbacks (fileCommitSerialize abstract: assumed to schedule data-area pages only), allocWALID (abstract: returns 0 or a page >= 2 different from the original). FNV collision on torn headers is assumed away; file contents are an uninterpreted function of the offset (slotAt); Schedule/Sync are monitor code whose contract defines the ghost protocol. Known finding F6 is recorded (separate obligation, not counted).'),
 "C05": ('position codec proved inverse for every page size 2^10..2^31 and every valid position, offset 0 <=> nil position, offsets of valid positions >= 2 pages; Offset/SplitOffset of File and of the standalone delegate against the Delegate interface contract; writer side: header-fit rule (buffer.ReserveHdr: a header never straddles a page; it stays in the current page iff it fits into the rest of it, else it goes to the start of the payload of a new page), accounting and invariant of the write buffer (Append: avail decreases by exactly the bytes appended, unbounded loop; CommitEvent: first/last event ids and first offset of the page holding the header, frame), event framing (Writer.Next stores uint32(event bytes) in the reserved header before committing the event, event id + 1); reader side: Reader.readInto delivers exactly min(rest of event, buffer) bytes, a partial read stays inside the event and never advances the page, a complete read moves to the next event id; Reader.Read returns that count; Reader re-initialisation from the persisted header; id order helpers',
         'End-to-end FIFO over the linked page chain is not decided: the cursor operations of the reader (txCursor.Read/Skip/AdvancePage/ReadEventHeader) and buffer.advancePage/Pages/Reset are abstract, so that the stepping of the reader agrees with the layout of the writer is assumed, not proved; after a flush the buffer invariant is a rely clause. The caller-side type-safety precondition apart(r, b) is stated explicitly.'),
 "C08": ("error-path contracts: every failing vfs call in mmap/munmap/mmapUpdate/truncate/readMeta yields a non-nil error, no panic, and the old mapping or a fresh valid one is installed (F4, F10 fixed); writer back end: after a failing WriteAt/Sync no further I/O is issued until a reset sync was answered, and that sync clears the error (writeAt, execSync, Run); commit error path releases the commit locks and publishes nothing (F6 recorded)",
         "Fault sequences/bursts over histories are the (unmechanised) induction over these contracts. vfs.File behaviour is an interface contract (any error at any time); a failing MUnmap or re-mmap after unmap cannot be recovered and is exempted in the contract."),
 "C09": ('lock balance via ghost tokens on the lock: beginTx acquires exactly one of shared/reserved, Tx.close / Rollback / Close / Commit release exactly it on every exit and never twice, withInitTx and initTxMaxSize leave all four lock levels and the pending flag as found for every behaviour of the callback, tryCommitChanges releases pending and exclusive on every exit, File.Close takes and releases all levels; pendingLock.Lock/Unlock verified: the flag is set/cleared and Unlock wakes every blocked reader (Broadcast)',
         'Deadlock freedom and data-race freedom over schedules are outside this family. shared/reserved/exclusive lock bodies are abstract (token semantics defined by contract; sync.Mutex/Cond trusted).'),
 "C10": ("free-list entry codec: encodeRegion/decodeRegion/regionEncodingSize meet word-level specs and the lemma decode(encode(r)) == r holds for every id < 2^55 and count >= 1 incl. the 255 overflow form",
         "Linked meta-page list walk, page-count prediction and header-field round trip not yet under contract. go-bin cells are modelled as opaque little-endian integers."),
 "C11": ('Avail formula of the data allocator (free list + room below the limit, noLimit iff unbounded), statistics reported at open (MetaArea, MetaAllocated, DataAllocated as functions of header and allocator), allocator.Rollback gives back exactly the regions moved to the meta area (bounded), truncate lower bound, mmap size covers file and limit',
         'Per-operation count deltas of allocation/commit and the onCommit statistics are not under contract; leak freedom over histories is their induction.'),
 "C14": ('open-time maintenance transaction releases every lock level and clears the pending flag for every callback; initTxMaxSize schedules exactly one header write, to the inactive slot, whose fields equal the active header except maxSize (rounded down to whole pages), txid+1 and the recomputed checksum, and switches the active slot only on success; commit-time free lists are copies (a failing release transaction cannot have edited the live list through mergeRegionLists); Avail formula gives the grow delta',
         'Shrink release (initTxReleaseRegions/releaseOverflowPages, fileCommitAlloc frame), the preallocation truncate of doGrowFile and what a later plain open reports are not under contract yet.'),
 "C15": ("queue: Reader.Available/Begin/Read on a closed reader => ReaderClosed, without transaction => InactiveTx, second Begin => UnexpectedActiveTx, no transaction begun; Writer.Write/Next/Flush on a closed writer => WriterClosed; Queue.Close leaves closed reader and acker objects behind so that ACK(n>0) on a closed queue => QueueClosed without beginning a transaction and Reader() hands out the closed reader (F12 fixed); all of them change nothing. Page methods (SetBytes/Load/MarkDirty/Free/Flush/Bytes) x page and transaction state. Method x life-cycle matrix of Tx proved for all states: Commit/Rollback/Close/Page/RootPage/Alloc/AllocN/CheckpointWAL/PageSize/getPage/beginTx: finished => error kind TxFinished (or TxReadOnly for writes), read-only => TxReadOnly, out-of-range => InvalidPageID, freed => InvalidOp, no panic, and preserved(): no pre-existing location changes",
         "The type invariants wfTx / wfPage / wfReader / wfWriter / wfQueue are assumed at entry of every public method. Reader.Next, Reader.Done and Queue.Writer are not under contract; writing through a Writer obtained after Queue.Close is not covered (the property lists reading and ACKing)."),
 "C16": ("Validate <=> magic, version and checksum over all 12 protected fields; slot selection table of readValidMeta incl. signed wrap-around compare; never returns a header that does not validate; no panic under 'intact headers have distinct txids'; an intact slot 1 is found when slot 0 is damaged, whatever its page size field says (F11 fixed: findSecondMeta searches every supported page size, verified with a loop invariant)",
         "FNV-1a/32 is an uninterpreted function (collision on multi-byte damage assumed away); file contents are an uninterpreted function of the offset."),
 "C17": ("Pending == tail.id - start.id and Active == tail.id - start.id (0 on an empty queue) as functions of the persisted header only, with start = read position if set else head; lemma: the two different emptiness tests used by Pending and Active agree on every offset the queue writes; Reader.Available == endID - id (0 without a position); Flushed callback reports exactly the flushed count and only after success; ACKed callback and totals report exactly n and only after the commit; id order helpers and position parsing",
         "Totals over a history are the (unmechanised) induction over these per-operation contracts; that tail.id advances by the number of events of a flush and read.id by n of an ACK is part of the abstract doFlush/initACK; reader id stepping (readInto/Next) is abstract."),
}

na = {
 "C12": "bound on space over unbounded traffic and drainability of a full file are whole-history/progress properties of a linked on-disk structure; no per-call contract within reach implies them",
 "C13": "quantifies over interleavings of two goroutines incl. data-race and deadlock freedom; the generator verifies sequential code of one goroutine",
}
claims.update({
 "C02": ("guarded-by obligations: every store to File.metaActive / File.mapped / File.meta / waLog.mapping / waLog.metaPages (directly or through a callee's modifies clause) in the functions under contract happens with the exclusive, pending and reserved ghost tokens held, or before the File is published by Open; a failing commit publishes nothing (except the recorded F6 case); newTx takes private copies of root and data end marker; getPage resolves the overwrite page through the committed mapping",
         "The schedule quantifier is discharged by rely on the lock contracts (lock.go bodies abstract, sync primitives trusted); memory-model level races are not analysed. Stores in functions that are not under contract are not seen."),
 "C03": ("page write buffer state machine of Page (SetBytes/Load/MarkDirty/Bytes/Free/Flush preconditions and buffer invariant), getPage resolution through the overwrite mapping, where a flushed page is written (Page.doFlush), the overwrite mapping a commit installs (createMappingUpdate, unbounded: new redirects win, old ones are kept unless released; fileCommitPrepare: checkpoint keeps only this transaction's redirects), WAL release chain (freeWALID -> deferred free of the overwrite page + mapping entry released), writer hands writes out in schedule order and keeps per-page order inside a batch (nextCommand FIFO, stable sort; F5 fixed), checkpoint copies home and releases every clean redirected page (bounded: mappings with at most 1 entry in the quick tier, 2 in the thorough tier)",
         "Byte-level equality of buffer contents after partial writes, flushPages and waLog.Commit's use at commit time beyond the guarded-by rule are not under contract; equality with a sequential model over whole histories is their (unmechanised) induction."),
 "C04": ('set-view contracts (ghost PageSet of each free list): Free of a committed page only records it (nothing becomes allocatable before commit), only pages allocated by the same transaction are recycled at once, nothing else becomes free; rollback (area and whole allocator) returns exactly the pages taken from the free list below the restored end marker and leaves no free page at or beyond it (F9 fixed); commit-time merged lists are new arrays',
         'Allocation paths (AllocRegionsWith, AllocContinuousRegion, meta-area growth), commit-time merge and the region-slice surgery functions are abstract: the link between the ghost set and the region slice is assumed there. The end-marker shrink inside Free edits the slice directly and is not tracked by the ghost view.'),
 "C07": ('allocArea.rollback restores the end marker and the free set exactly (unbounded, with the map-iteration visited-set model); allocator.Rollback gives every region moved into the meta area back (metaTotal), restores both end markers and leaves no free page beyond them (bounded: at most 2 moved regions); dataAllocator.Free defers frees of committed pages; mergeRegionLists never returns or writes one of its inputs (commit-time lists are copies); every error exit of tryCommitChanges leaves the published state untouched and releases the commit locks; known finding F6 (late truncate/mmap failure after publication) is recorded',
         "rollbackChanges' truncate, the reopen half of the statement and fileCommitAlloc's frame (abstract) are not under contract."),
})
claims.update({
 "C18": ("release on all exits: Open returns with the path lock and the file handle released on every error exit (options invalid, open fails, lock fails, initialisation fails incl. the max-size branch that already released both through File.Close) and with both held on success; openWith either leaves lock and handle alone or releases both; File.Close releases both on every exit; osfs Lock/Unlock/doLock/doUnlock: locking twice is refused without touching the lock, a failed lock keeps nothing, unlock clears the handle only on success and releases whatever is held (representation invariant lockCoupled preserved)",
         "Mutual exclusion between processes is the semantics of flock(2) behind github.com/gofrs/flock (assumed extern contracts; a failing OS-level unlock is outside the fault model). newFile (go statement), initNewFile, growFile/shrinkFile are abstract in openWith; three clauses of openWith about the representation of the concrete OS file are assumed (listed in evidence)."),
})
claims.update({
 "C06": ('ACK (acker.cleanup): at most one write transaction, closed on every exit; every page free and the head/read/inuse update happen on it and the root page is dirty before its single Commit; success means Commit returned nil; callback and totals only then and with exactly n; nothing reported on error. Which pages an ACK collects (collectFreePages): never the page the writer appends to, never a page that still holds un-ACKed events, one page per step; where reading resumes (findNewStartPositions): head = first event of the kept page, read = position where skipping ended with id = first un-ACKed id. Flush (Writer.doFlush): one write transaction closed on every exit, header update (updateRootHdr: tail.id = next event id, tail behind the last complete event, inuse += allocated, head set only for an empty queue) and root MarkDirty before the single Commit, buffer released only after the commit, page ids un-assigned on every failure after linking and kept on success; flushBuffer callback accounting',
         "Not decided: the crash quantifier (delegated to C01: a flush/ACK is one txfile commit), the in-memory page list walks of a flush (allocatePages/linkPages/flushPages/buffer.Reset abstract; their effect on the root page object and the buffer offsets is a rely clause), initACK's composition, re-initialisation from the persisted header. txfile's API is used through its contracts; the Page invariant of pages handed out by Tx.Page is an assumed postcondition."),
})
pending = {
}

checks = []
for p in props:
    pid = p['id']
    if pid in claims:
        text, note = claims[pid]
        checks.append({
            "property_id": pid,
            "quick_cmd": f"./bin/govc check {pid} --tier quick",
            "thorough_cmd": f"./bin/govc check {pid} --tier thorough",
            "evidence_file": f"/verif/evidence/{pid}.json",
            "replay_cmd_template": "./bin/govc replay {path}",
            "engine": "govc",
            "level_claimed": {"category": "proof", "text": text, "design_ref": f"DESIGN.md section 5 ({pid})"},
            "level_note": note + " Trusted base: go/packages+go/ssa front end, govc's SSA->SMT encoding, solver soundness, termination not proved, sequential reasoning per goroutine; see evidence.assumptions for the exact list used by the run.",
            "technique": TECH,
        })
not_app = [{"property_id": k, "reason": v} for k, v in {**na, **{k: v for k, v in pending.items() if k not in claims}}.items()]
not_app.sort(key=lambda x: x['property_id'])

m = {
 "version": 1,
 "setup_cmd": "cd /verif/engine && GOFLAGS=-mod=vendor GOPROXY=off GOSUMDB=off GOTOOLCHAIN=local go build -o /verif/bin/govc ./cmd/govc",
 "hooks": {
  "guard": "verif",
  "enable": "go build tag `verif` adds the comment-only contract files /repo/contracts_verif.go, /repo/pq/contracts_verif.go and /repo/internal/vfs/osfs/contracts_verif.go (no code: object files identical with and without the tag); govc loads /repo with -tags verif",
  "baseline_off_cmd": "cd /repo && GOFLAGS=-mod=mod GOPROXY=off GOSUMDB=off GOTOOLCHAIN=local go build ./... && GOFLAGS=-mod=mod GOPROXY=off GOSUMDB=off GOTOOLCHAIN=local go test -vet=off -count=1 -timeout 25m ./...",
  "source_commits": hooks,
  "add_only": True,
 },
 "engines": [{"name": "govc", "path": "engine/cmd/govc", "serves_properties": sorted(claims), "kind_free_text": "contract-based deductive verifier for Go written for this task: contracts in comment-only files of /repo, VC generation over go/ssa (passive DAG, loop invariants, call-by-contract, ghost fields, frames), bit-vector integers, SMT portfolio; counterexamples replayed through in-package scenario tests injected with go test -overlay"}],
 "checks": checks,
 "notes": "Exit codes of a check: 0 all obligations discharged; 1 VIOLATION line(s); 2 UNDECIDED (tool limit: contract does not bind, code left the verified subset, vacuous precondition). fix: commits in /repo: " + ", ".join(l.split()[0] for l in hook_commits if ' fix:' in l),
 "not_applicable": not_app,
}
json.dump(m, open('/verif/MANIFEST.json', 'w'), indent=1)
print("claimed:", sorted(claims), "n/a:", [x['property_id'] for x in not_app])
